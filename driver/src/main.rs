// toughlint — rustc_private fact extractor for the static verification of awslabs/tough.
//
// Used as RUSTC_WORKSPACE_WRAPPER: argv = [toughlint, <real rustc>, rustc args...].
// For the workspace member crates it dumps, in `after_expansion`, one JSON fact file per
// compiled crate into $TOUGHLINT_OUT: MIR bodies (mir_built, i.e. before the coroutine
// transform), ADTs, impls, function visibilities, evaluated constants, and the trait table
// of serde_json::ser::Formatter.  It never decides anything: all rules live in /verif/tl.
#![feature(rustc_private)]
#![allow(unused_imports, unused_variables, dead_code)]

extern crate rustc_abi;
extern crate rustc_data_structures;
extern crate rustc_driver;
extern crate rustc_hir;
extern crate rustc_index;
extern crate rustc_interface;
extern crate rustc_middle;
extern crate rustc_session;
extern crate rustc_span;

use rustc_driver::Compilation;
use rustc_hir::def::DefKind;
use rustc_hir::def_id::{DefId, LocalDefId, LOCAL_CRATE};
use rustc_middle::mir::PlaceTy;
use rustc_middle::mir::{
    self, AggregateKind, BasicBlock, Body, Const, Operand, Place, ProjectionElem, Rvalue,
    StatementKind, TerminatorKind,
};
use rustc_middle::ty::print::{with_crate_prefix, with_no_trimmed_paths, with_no_visible_paths};
use rustc_middle::ty::{self, Instance, Ty, TyCtxt, TypingEnv};
use rustc_span::Span;
use std::fmt::Write as _;

const MEMBERS: &[&str] = &["olpc_cjson", "tough", "tough_kms", "tough_ssm", "tuftool"];

fn q(s: &str) -> String {
    let mut o = String::with_capacity(s.len() + 2);
    o.push('"');
    for c in s.chars() {
        match c {
            '"' => o.push_str("\\\""),
            '\\' => o.push_str("\\\\"),
            '\n' => o.push_str("\\n"),
            '\r' => o.push_str("\\r"),
            '\t' => o.push_str("\\t"),
            c if (c as u32) < 0x20 => {
                let _ = write!(o, "\\u{:04x}", c as u32);
            }
            c => o.push(c),
        }
    }
    o.push('"');
    o
}

fn list(v: &[String]) -> String {
    format!("[{}]", v.join(","))
}

static CRATE: std::sync::OnceLock<String> = std::sync::OnceLock::new();

/// `crate::a::b` -> `<cratename>::a::b` (only at identifier boundaries)
fn fix_crate(s: String) -> String {
    if !s.contains("crate::") {
        return s;
    }
    let name = CRATE.get().map(|s| s.as_str()).unwrap_or("crate");
    let mut out = String::with_capacity(s.len() + 16);
    let b = s.as_bytes();
    let mut i = 0;
    while i < b.len() {
        if s[i..].starts_with("crate::")
            && (i == 0 || !(b[i - 1].is_ascii_alphanumeric() || b[i - 1] == b'_'))
        {
            out.push_str(name);
            out.push_str("::");
            i += 7;
        } else {
            let ch = s[i..].chars().next().unwrap();
            out.push(ch);
            i += ch.len_utf8();
        }
    }
    out
}

fn dpath(tcx: TyCtxt<'_>, d: DefId) -> String {
    fix_crate(with_no_visible_paths!(with_crate_prefix!(with_no_trimmed_paths!(tcx.def_path_str(d)))))
}

fn gastr<'tcx>(a: ty::GenericArg<'tcx>) -> String {
    fix_crate(with_no_visible_paths!(with_crate_prefix!(with_no_trimmed_paths!(a.to_string()))))
}

fn tystr<'tcx>(ty: Ty<'tcx>) -> String {
    let s = fix_crate(with_no_visible_paths!(with_crate_prefix!(with_no_trimmed_paths!(ty.to_string()))));
    if s.len() > 400 {
        let mut e = 400;
        while !s.is_char_boundary(e) {
            e -= 1;
        }
        format!("{}…", &s[..e])
    } else {
        s
    }
}

/// def paths of all ADTs / closures / fn defs mentioned in a type
fn ty_mentions<'tcx>(tcx: TyCtxt<'tcx>, ty: Ty<'tcx>) -> Vec<String> {
    let mut out = Vec::new();
    for arg in ty.walk() {
        if let Some(t) = arg.as_type() {
            match t.kind() {
                ty::Adt(adt, _) => out.push(q(&dpath(tcx, adt.did()))),
                _ => {}
            }
        }
    }
    out.sort();
    out.dedup();
    out
}

fn span_json(tcx: TyCtxt<'_>, sp: Span) -> String {
    let sm = tcx.sess.source_map();
    let mut exp = String::new();
    if sp.from_expansion() {
        let ed = sp.ctxt().outer_expn_data();
        exp = match ed.kind {
            rustc_span::ExpnKind::Macro(_, name) => format!("macro:{}", name),
            rustc_span::ExpnKind::Desugaring(k) => format!("desugar:{:?}", k),
            rustc_span::ExpnKind::AstPass(k) => format!("astpass:{:?}", k),
            rustc_span::ExpnKind::Root => "root".to_string(),
        };
    }
    // location of the outermost call site (where the user wrote it)
    let root = sp.source_callsite();
    let loc = sm.lookup_char_pos(root.lo());
    let file = match &loc.file.name {
        rustc_span::FileName::Real(r) => match r.local_path() {
            Some(p) => p.display().to_string(),
            None => format!("{:?}", loc.file.name),
        },
        other => format!("{:?}", other),
    };
    format!("{{\"f\":{},\"l\":{},\"x\":{}}}", q(&file), loc.line, q(&exp))
}

struct Cx<'a, 'tcx> {
    tcx: TyCtxt<'tcx>,
    body: &'a Body<'tcx>,
    env: TypingEnv<'tcx>,
}

impl<'a, 'tcx> Cx<'a, 'tcx> {
    fn place(&self, p: &Place<'tcx>) -> String {
        let tcx = self.tcx;
        let mut pty = PlaceTy::from_ty(self.body.local_decls[p.local].ty);
        let mut projs: Vec<String> = Vec::new();
        for elem in p.projection.iter() {
            let j = match elem {
                ProjectionElem::Deref => "\"*\"".to_string(),
                ProjectionElem::Field(f, fty) => {
                    let idx = f.as_usize();
                    match pty.ty.kind() {
                        ty::Adt(adt, _) => {
                            let v = pty.variant_index.unwrap_or(rustc_abi::FIRST_VARIANT);
                            let vd = adt.variant(v);
                            let name = vd
                                .fields
                                .get(f)
                                .map(|fd| fd.name.to_string())
                                .unwrap_or_else(|| idx.to_string());
                            format!(
                                "{{\"f\":{},\"n\":{},\"adt\":{},\"v\":{}}}",
                                idx,
                                q(&name),
                                q(&dpath(tcx, adt.did())),
                                q(&vd.name.to_string())
                            )
                        }
                        ty::Closure(..) | ty::Coroutine(..) | ty::CoroutineClosure(..) => {
                            format!("{{\"f\":{},\"up\":true}}", idx)
                        }
                        _ => format!("{{\"f\":{}}}", idx),
                    }
                }
                ProjectionElem::Index(l) => format!("{{\"idx\":{}}}", l.as_usize()),
                ProjectionElem::ConstantIndex { offset, from_end, .. } => {
                    format!("{{\"cidx\":{},\"from_end\":{}}}", offset, from_end)
                }
                ProjectionElem::Subslice { .. } => "\"subslice\"".to_string(),
                ProjectionElem::Downcast(sym, v) => {
                    let name = match pty.ty.kind() {
                        ty::Adt(adt, _) if adt.is_enum() => adt.variant(v).name.to_string(),
                        _ => sym.map(|s| s.to_string()).unwrap_or_default(),
                    };
                    format!("{{\"dc\":{},\"vi\":{}}}", q(&name), v.as_usize())
                }
                ProjectionElem::OpaqueCast(_) => "\"opaque\"".to_string(),
                ProjectionElem::UnwrapUnsafeBinder(_) => "\"unbinder\"".to_string(),
            };
            projs.push(j);
            pty = pty.projection_ty(tcx, elem);
        }
        format!("{{\"l\":{},\"p\":{}}}", p.local.as_usize(), list(&projs))
    }

    fn fn_ref(&self, ty: Ty<'tcx>) -> Option<String> {
        let tcx = self.tcx;
        match ty.kind() {
            ty::FnDef(def, args) => {
                let mut s = format!("\"fn\":{}", q(&dpath(tcx, *def)));
                let a: Vec<String> = args
                    .iter()
                    .map(|a| q(&gastr(a)))
                    .collect();
                let _ = write!(s, ",\"ga\":{}", list(&a));
                // self type of the first generic arg, if an ADT: its def path
                if let Some(t0) = args.types().next() {
                    let mut t = t0;
                    loop {
                        match t.kind() {
                            ty::Ref(_, inner, _) => t = *inner,
                            _ => break,
                        }
                    }
                    if let ty::Adt(adt, _) = t.kind() {
                        let _ = write!(s, ",\"self_adt\":{}", q(&dpath(tcx, adt.did())));
                    }
                }
                // resolve
                let res = std::panic::catch_unwind(std::panic::AssertUnwindSafe(|| {
                    Instance::try_resolve(tcx, self.env, *def, args)
                }));
                if let Ok(Ok(Some(inst))) = res {
                    let rd = inst.def_id();
                    let _ = write!(s, ",\"res\":{}", q(&dpath(tcx, rd)));
                    let kind = match inst.def {
                        ty::InstanceKind::Item(_) => "item",
                        ty::InstanceKind::Virtual(..) => "virtual",
                        ty::InstanceKind::Intrinsic(_) => "intrinsic",
                        ty::InstanceKind::ClosureOnceShim { .. } => "closure_once",
                        ty::InstanceKind::FnPtrShim(..) => "fnptr_shim",
                        ty::InstanceKind::DropGlue(..) => "drop_glue",
                        ty::InstanceKind::CloneShim(..) => "clone_shim",
                        ty::InstanceKind::ReifyShim(..) => "reify",
                        _ => "other",
                    };
                    let _ = write!(s, ",\"rk\":{}", q(kind));
                    let ra: Vec<String> = inst
                        .args
                        .iter()
                        .map(|a| q(&gastr(a)))
                        .collect();
                    let _ = write!(s, ",\"ra\":{}", list(&ra));
                }
                Some(s)
            }
            _ => None,
        }
    }

    fn operand(&self, o: &Operand<'tcx>) -> String {
        match o {
            Operand::Copy(p) => format!("{{\"k\":\"copy\",\"p\":{}}}", self.place(p)),
            Operand::Move(p) => format!("{{\"k\":\"move\",\"p\":{}}}", self.place(p)),
            Operand::Constant(c) => {
                let ty = c.const_.ty();
                let mut s = format!("{{\"k\":\"const\",\"ty\":{}", q(&tystr(ty)));
                if let Some(f) = self.fn_ref(ty) {
                    let _ = write!(s, ",{}", f);
                } else {
                    let disp0 = with_no_visible_paths!(with_crate_prefix!(with_no_trimmed_paths!(format!("{}", c.const_))));
                    let disp = if disp0.starts_with("const \"") || disp0.starts_with("const b\"") || disp0.starts_with('"') || disp0.starts_with("b\"") {
                        disp0
                    } else {
                        fix_crate(disp0)
                    };
                    let _ = write!(s, ",\"v\":{}", q(&disp));
                    match c.const_ {
                        Const::Unevaluated(uv, _) => {
                            let _ = write!(s, ",\"def\":{}", q(&dpath(self.tcx, uv.def)));
                            if uv.promoted.is_some() {
                                let _ = write!(s, ",\"promoted\":true");
                            }
                        }
                        _ => {}
                    }
                    // integers / bools / chars as numbers
                    if ty.is_integral() || ty.is_bool() || ty.is_char() {
                        let r = std::panic::catch_unwind(std::panic::AssertUnwindSafe(|| {
                            c.const_.try_eval_scalar_int(self.tcx, self.env)
                        }));
                        if let Ok(Some(si)) = r {
                            let bits = si.to_bits_unchecked();
                            let _ = write!(s, ",\"bits\":{}", q(&bits.to_string()));
                        }
                    }
                    if let ty::Adt(adt, _) = ty.kind() {
                        let _ = write!(s, ",\"adt\":{}", q(&dpath(self.tcx, adt.did())));
                    }
                    // pointer to a static: name the static
                    if let Const::Val(mir::ConstValue::Scalar(mir::interpret::Scalar::Ptr(ptr, _)), _) = c.const_ {
                        let aid = ptr.provenance.alloc_id();
                        if let Some(mir::interpret::GlobalAlloc::Static(did)) = self.tcx.try_get_global_alloc(aid) {
                            let _ = write!(s, ",\"static\":{}", q(&dpath(self.tcx, did)));
                        }
                    }
                }
                s.push('}');
                s
            }
            other => format!("{{\"k\":\"other\",\"v\":{}}}", q(&format!("{:?}", other))),
        }
    }

    fn rvalue(&self, r: &Rvalue<'tcx>) -> String {
        let tcx = self.tcx;
        match r {
            Rvalue::Use(o, ..) => format!("{{\"k\":\"use\",\"o\":{}}}", self.operand(o)),
            Rvalue::Repeat(o, _) => format!("{{\"k\":\"repeat\",\"o\":{}}}", self.operand(o)),
            Rvalue::Ref(_, bk, p) => {
                let m = matches!(bk, mir::BorrowKind::Mut { .. });
                format!("{{\"k\":\"ref\",\"mut\":{},\"p\":{}}}", m, self.place(p))
            }
            Rvalue::RawPtr(_, p) => format!("{{\"k\":\"rawptr\",\"p\":{}}}", self.place(p)),
            Rvalue::ThreadLocalRef(d) => {
                format!("{{\"k\":\"tls\",\"def\":{}}}", q(&dpath(tcx, *d)))
            }
            Rvalue::Cast(ck, o, ty) => format!(
                "{{\"k\":\"cast\",\"ck\":{},\"o\":{},\"ty\":{}}}",
                q(&format!("{:?}", ck)),
                self.operand(o),
                q(&tystr(*ty))
            ),
            Rvalue::BinaryOp(op, ab) => format!(
                "{{\"k\":\"bin\",\"op\":{},\"a\":{},\"b\":{}}}",
                q(&format!("{:?}", op)),
                self.operand(&ab.0),
                self.operand(&ab.1)
            ),
            Rvalue::UnaryOp(op, o) => format!(
                "{{\"k\":\"un\",\"op\":{},\"o\":{}}}",
                q(&format!("{:?}", op)),
                self.operand(o)
            ),
            Rvalue::Discriminant(p) => {
                let pty = p.ty(&self.body.local_decls, tcx).ty;
                let mut vars: Vec<String> = Vec::new();
                let mut adtp = String::new();
                if let ty::Adt(adt, _) = pty.kind() {
                    adtp = dpath(tcx, adt.did());
                    if adt.is_enum() {
                        for (vi, d) in adt.discriminants(tcx) {
                            vars.push(format!(
                                "{}:{}",
                                q(&d.val.to_string()),
                                q(&adt.variant(vi).name.to_string())
                            ));
                        }
                    }
                }
                format!(
                    "{{\"k\":\"discr\",\"p\":{},\"adt\":{},\"vars\":{{{}}}}}",
                    self.place(p),
                    q(&adtp),
                    vars.join(",")
                )
            }
            Rvalue::Aggregate(kind, ops) => {
                let o: Vec<String> = ops.iter().map(|o| self.operand(o)).collect();
                let head = match &**kind {
                    AggregateKind::Array(_) => "\"ak\":\"array\"".to_string(),
                    AggregateKind::Tuple => "\"ak\":\"tuple\"".to_string(),
                    AggregateKind::Adt(did, vi, _, _, active) => {
                        let adt = tcx.adt_def(*did);
                        let vd = adt.variant(*vi);
                        let fields: Vec<String> =
                            vd.fields.iter().map(|f| q(&f.name.to_string())).collect();
                        format!(
                            "\"ak\":\"adt\",\"adt\":{},\"variant\":{},\"fields\":{}",
                            q(&dpath(tcx, *did)),
                            q(&vd.name.to_string()),
                            list(&fields)
                        )
                    }
                    AggregateKind::Closure(did, _) => {
                        format!("\"ak\":\"closure\",\"def\":{}", q(&dpath(tcx, *did)))
                    }
                    AggregateKind::Coroutine(did, _) => {
                        format!("\"ak\":\"coroutine\",\"def\":{}", q(&dpath(tcx, *did)))
                    }
                    AggregateKind::CoroutineClosure(did, _) => {
                        format!("\"ak\":\"coroutine_closure\",\"def\":{}", q(&dpath(tcx, *did)))
                    }
                    AggregateKind::RawPtr(..) => "\"ak\":\"rawptr\"".to_string(),
                };
                format!("{{\"k\":\"agg\",{},\"ops\":{}}}", head, list(&o))
            }
            Rvalue::CopyForDeref(p) => format!("{{\"k\":\"copyderef\",\"p\":{}}}", self.place(p)),
            Rvalue::WrapUnsafeBinder(o, _) => {
                format!("{{\"k\":\"use\",\"o\":{}}}", self.operand(o))
            }
        }
    }

    fn call(&self, func: &Operand<'tcx>, args: &[rustc_span::Spanned<Operand<'tcx>>]) -> String {
        let a: Vec<String> = args.iter().map(|a| self.operand(&a.node)).collect();
        format!("\"func\":{},\"args\":{}", self.operand(func), list(&a))
    }

    fn terminator(&self, t: &mir::Terminator<'tcx>) -> String {
        let sp = span_json(self.tcx, t.source_info.span);
        let body = match &t.kind {
            TerminatorKind::Goto { target } => format!("\"k\":\"goto\",\"t\":{}", target.as_usize()),
            TerminatorKind::SwitchInt { discr, targets } => {
                let mut tv: Vec<String> = Vec::new();
                for (v, bb) in targets.iter() {
                    tv.push(format!("[{},{}]", q(&v.to_string()), bb.as_usize()));
                }
                format!(
                    "\"k\":\"switch\",\"d\":{},\"tv\":{},\"o\":{}",
                    self.operand(discr),
                    list(&tv),
                    targets.otherwise().as_usize()
                )
            }
            TerminatorKind::UnwindResume => "\"k\":\"resume\"".to_string(),
            TerminatorKind::UnwindTerminate(_) => "\"k\":\"abort\"".to_string(),
            TerminatorKind::Return => "\"k\":\"return\"".to_string(),
            TerminatorKind::Unreachable => "\"k\":\"unreachable\"".to_string(),
            TerminatorKind::Drop { place, target, .. } => format!(
                "\"k\":\"drop\",\"p\":{},\"t\":{}",
                self.place(place),
                target.as_usize()
            ),
            TerminatorKind::Call { func, args, destination, target, fn_span, .. } => {
                let t = match target {
                    Some(t) => t.as_usize().to_string(),
                    None => "null".to_string(),
                };
                format!(
                    "\"k\":\"call\",{},\"dest\":{},\"t\":{},\"fsp\":{}",
                    self.call(func, args),
                    self.place(destination),
                    t,
                    span_json(self.tcx, *fn_span)
                )
            }
            TerminatorKind::TailCall { func, args, .. } => {
                format!("\"k\":\"tailcall\",{}", self.call(func, args))
            }
            TerminatorKind::Assert { cond, expected, target, msg, .. } => {
                let mk = match &**msg {
                    mir::AssertKind::BoundsCheck { .. } => "bounds",
                    mir::AssertKind::Overflow(..) => "overflow",
                    mir::AssertKind::OverflowNeg(..) => "overflow",
                    mir::AssertKind::DivisionByZero(..) => "div0",
                    mir::AssertKind::RemainderByZero(..) => "rem0",
                    _ => "other",
                };
                format!(
                    "\"k\":\"assert\",\"c\":{},\"e\":{},\"t\":{},\"m\":{}",
                    self.operand(cond),
                    expected,
                    target.as_usize(),
                    q(mk)
                )
            }
            TerminatorKind::Yield { value, resume, resume_arg, .. } => format!(
                "\"k\":\"yield\",\"v\":{},\"t\":{},\"ra\":{}",
                self.operand(value),
                resume.as_usize(),
                self.place(resume_arg)
            ),
            TerminatorKind::CoroutineDrop => "\"k\":\"coroutine_drop\"".to_string(),
            TerminatorKind::FalseEdge { real_target, .. } => {
                format!("\"k\":\"goto\",\"t\":{},\"false\":true", real_target.as_usize())
            }
            TerminatorKind::FalseUnwind { real_target, .. } => {
                format!("\"k\":\"goto\",\"t\":{},\"false\":true", real_target.as_usize())
            }
            TerminatorKind::InlineAsm { targets, .. } => {
                let tv: Vec<String> = targets.iter().map(|b| b.as_usize().to_string()).collect();
                format!("\"k\":\"asm\",\"ts\":{}", list(&tv))
            }
        };
        format!("{{{},\"sp\":{}}}", body, sp)
    }

    fn body_json(&self, path: &str, extra: &str) -> String {
        let tcx = self.tcx;
        let body = self.body;
        let mut locals: Vec<String> = Vec::new();
        for (l, d) in body.local_decls.iter_enumerated() {
            let mut adt = String::new();
            let mut t = d.ty;
            loop {
                match t.kind() {
                    ty::Ref(_, inner, _) => t = *inner,
                    _ => break,
                }
            }
            if let ty::Adt(a, _) = t.kind() {
                adt = dpath(tcx, a.did());
            }
            locals.push(format!(
                "{{\"ty\":{},\"adt\":{},\"user\":{}}}",
                q(&tystr(d.ty)),
                q(&adt),
                match &d.local_info {
                    mir::ClearCrossCrate::Set(_) => d.is_user_variable(),
                    _ => false,
                }
            ));
        }
        let mut vdi: Vec<String> = Vec::new();
        for v in &body.var_debug_info {
            if let mir::VarDebugInfoContents::Place(p) = &v.value {
                vdi.push(format!(
                    "{{\"n\":{},\"p\":{},\"arg\":{}}}",
                    q(&v.name.to_string()),
                    self.place(p),
                    v.argument_index.map(|i| i as i64).unwrap_or(-1)
                ));
            }
        }
        let mut blocks: Vec<String> = Vec::new();
        for (bb, data) in body.basic_blocks.iter_enumerated() {
            let mut stmts: Vec<String> = Vec::new();
            for st in &data.statements {
                match &st.kind {
                    StatementKind::Assign(b) => {
                        let (p, r) = &**b;
                        stmts.push(format!(
                            "{{\"k\":\"assign\",\"p\":{},\"r\":{},\"sp\":{}}}",
                            self.place(p),
                            self.rvalue(r),
                            span_json(tcx, st.source_info.span)
                        ));
                    }
                    StatementKind::SetDiscriminant { place, variant_index } => {
                        stmts.push(format!(
                            "{{\"k\":\"setdiscr\",\"p\":{},\"vi\":{},\"sp\":{}}}",
                            self.place(place),
                            variant_index.as_usize(),
                            span_json(tcx, st.source_info.span)
                        ));
                    }
                    _ => {}
                }
            }
            let term = match &data.terminator {
                Some(t) => self.terminator(t),
                None => "null".to_string(),
            };
            blocks.push(format!(
                "{{\"cleanup\":{},\"s\":{},\"t\":{}}}",
                data.is_cleanup,
                list(&stmts),
                term
            ));
        }
        format!(
            "{{\"path\":{},{}\"argc\":{},\"span\":{},\"locals\":{},\"vdi\":{},\"blocks\":{}}}",
            q(path),
            extra,
            body.arg_count,
            span_json(tcx, body.span),
            list(&locals),
            list(&vdi),
            list(&blocks)
        )
    }
}

fn get_body<'tcx>(tcx: TyCtxt<'tcx>, def: LocalDefId) -> Option<(Body<'tcx>, &'static str)> {
    let kind = tcx.def_kind(def);
    let is_fn_like = matches!(
        kind,
        DefKind::Fn | DefKind::AssocFn | DefKind::Closure | DefKind::SyntheticCoroutineBody
    );
    let s = tcx.mir_built(def);
    if !s.is_stolen() {
        return Some((s.borrow().clone(), "built"));
    }
    let (s, _) = tcx.mir_promoted(def);
    if !s.is_stolen() {
        return Some((s.borrow().clone(), "promoted"));
    }
    if is_fn_like {
        let s = tcx.mir_drops_elaborated_and_const_checked(def);
        if !s.is_stolen() {
            return Some((s.borrow().clone(), "elaborated"));
        }
        if tcx.is_mir_available(def.to_def_id()) {
            return Some((tcx.optimized_mir(def.to_def_id()).clone(), "optimized"));
        }
        None
    } else {
        Some((tcx.mir_for_ctfe(def.to_def_id()).clone(), "ctfe"))
    }
}

fn const_bytes<'tcx>(tcx: TyCtxt<'tcx>, def: DefId) -> Option<String> {
    let g = tcx.generics_of(def);
    if g.count() != 0 {
        return None;
    }
    let v = match tcx.const_eval_poly(def) {
        Ok(v) => v,
        _ => return None,
    };
    match v {
        mir::ConstValue::Scalar(s) => match s {
            mir::interpret::Scalar::Int(i) => Some(format!("{{\"scalar\":{}}}", q(&i.to_bits_unchecked().to_string()))),
            _ => None,
        },
        mir::ConstValue::Indirect { alloc_id, offset } => {
            let ga = tcx.global_alloc(alloc_id);
            let mem = ga.unwrap_memory();
            let alloc = mem.inner();
            let len = alloc.len();
            if len > 256 {
                return None;
            }
            let bytes = alloc.inspect_with_uninit_and_ptr_outside_interpreter(0..len);
            let v: Vec<String> = bytes.iter().map(|b| b.to_string()).collect();
            Some(format!("{{\"bytes\":{},\"offset\":{}}}", list(&v), offset.bytes()))
        }
        _ => None,
    }
}

fn emit<'tcx>(tcx: TyCtxt<'tcx>, out_dir: &str) {
    let cname = tcx.crate_name(LOCAL_CRATE).to_string();
    let _ = CRATE.set(cname.clone());
    let ctype = tcx
        .crate_types()
        .iter()
        .map(|c| format!("{:?}", c).to_lowercase())
        .collect::<Vec<_>>()
        .join("+");
    // 1. clone all bodies before resolving anything
    let mut bodies: Vec<(LocalDefId, Body<'tcx>, &'static str)> = Vec::new();
    for def in tcx.hir_body_owners() {
        if let Some((b, src)) = get_body(tcx, def) {
            bodies.push((def, b, src));
        }
    }
    let mut body_json: Vec<String> = Vec::new();
    for (def, body, src) in &bodies {
        let did = def.to_def_id();
        let kind = tcx.def_kind(did);
        let env = TypingEnv::post_analysis(tcx, did);
        let cx = Cx { tcx, body, env };
        let parent = tcx.opt_parent(did).map(|p| dpath(tcx, p)).unwrap_or_default();
        let mut extra = format!(
            "\"kind\":{},\"src\":{},\"parent\":{},",
            q(&format!("{:?}", kind)),
            q(src),
            q(&parent)
        );
        if matches!(kind, DefKind::Fn | DefKind::AssocFn) {
            let vis = tcx.visibility(did);
            let v = match vis {
                ty::Visibility::Public => "pub".to_string(),
                ty::Visibility::Restricted(m) => format!("in:{}", dpath(tcx, m)),
            };
            let _ = write!(extra, "\"vis\":{},", q(&v));
            let is_async = tcx.asyncness(did).is_async();
            let _ = write!(extra, "\"async\":{},", is_async);
        }
        if matches!(kind, DefKind::Closure) {
            let ck = tcx.coroutine_kind(did);
            let _ = write!(extra, "\"coroutine\":{},", q(&format!("{:?}", ck)));
        }
        // is the item inside a #[cfg(test)] module? (test cfg is off under `check`, so no)
        body_json.push(cx.body_json(&dpath(tcx, did), &extra));
    }

    // 2. ADTs, impls, fns, consts
    let mut adts: Vec<String> = Vec::new();
    let mut impls: Vec<String> = Vec::new();
    let mut consts: Vec<String> = Vec::new();
    let mut fns: Vec<String> = Vec::new();
    for ld in tcx.hir_crate_items(()).definitions() {
        let did = ld.to_def_id();
        match tcx.def_kind(did) {
            DefKind::Struct | DefKind::Enum | DefKind::Union => {
                let adt = tcx.adt_def(did);
                let mut vars: Vec<String> = Vec::new();
                for (vi, v) in adt.variants().iter_enumerated() {
                    let mut fields: Vec<String> = Vec::new();
                    for f in v.fields.iter() {
                        let fty = tcx.type_of(f.did).instantiate_identity().skip_norm_wip();
                        let vis = match f.vis {
                            ty::Visibility::Public => "pub".to_string(),
                            ty::Visibility::Restricted(m) => format!("in:{}", dpath(tcx, m)),
                        };
                        fields.push(format!(
                            "{{\"n\":{},\"ty\":{},\"vis\":{},\"mentions\":{}}}",
                            q(&f.name.to_string()),
                            q(&tystr(fty)),
                            q(&vis),
                            list(&ty_mentions(tcx, fty))
                        ));
                    }
                    let discr = if adt.is_enum() {
                        adt.discriminant_for_variant(tcx, vi).val.to_string()
                    } else {
                        "0".to_string()
                    };
                    vars.push(format!(
                        "{{\"n\":{},\"d\":{},\"fields\":{}}}",
                        q(&v.name.to_string()),
                        q(&discr),
                        list(&fields)
                    ));
                }
                let vis = match tcx.visibility(did) {
                    ty::Visibility::Public => "pub".to_string(),
                    ty::Visibility::Restricted(m) => format!("in:{}", dpath(tcx, m)),
                };
                adts.push(format!(
                    "{{\"path\":{},\"kind\":{},\"vis\":{},\"span\":{},\"variants\":{}}}",
                    q(&dpath(tcx, did)),
                    q(&format!("{:?}", tcx.def_kind(did))),
                    q(&vis),
                    span_json(tcx, tcx.def_span(did)),
                    list(&vars)
                ));
            }
            DefKind::Impl { of_trait } => {
                let self_ty = tcx.type_of(did).instantiate_identity().skip_norm_wip();
                let mut self_adt = String::new();
                if let ty::Adt(a, _) = self_ty.kind() {
                    self_adt = dpath(tcx, a.did());
                }
                let tr = if of_trait {
                    let t = tcx.impl_trait_ref(did).instantiate_identity().skip_norm_wip();
                    dpath(tcx, t.def_id)
                } else {
                    String::new()
                };
                let items: Vec<String> = tcx
                    .associated_items(did)
                    .in_definition_order()
                    .map(|it| {
                        format!(
                            "{{\"n\":{},\"path\":{},\"of\":{}}}",
                            q(&it.name().to_string()),
                            q(&dpath(tcx, it.def_id)),
                            q(&it.trait_item_def_id().map(|d| dpath(tcx, d)).unwrap_or_default())
                        )
                    })
                    .collect();
                impls.push(format!(
                    "{{\"path\":{},\"trait\":{},\"self\":{},\"self_adt\":{},\"derived\":{},\"span\":{},\"items\":{}}}",
                    q(&dpath(tcx, did)),
                    q(&tr),
                    q(&tystr(self_ty)),
                    q(&self_adt),
                    tcx.is_automatically_derived(did),
                    span_json(tcx, tcx.def_span(did)),
                    list(&items)
                ));
            }
            DefKind::Const { .. } => {
                if let Some(v) = const_bytes(tcx, did) {
                    consts.push(format!("{{\"path\":{},\"val\":{}}}", q(&dpath(tcx, did)), v));
                }
            }
            DefKind::Fn | DefKind::AssocFn => {
                let vis = match tcx.visibility(did) {
                    ty::Visibility::Public => "pub".to_string(),
                    ty::Visibility::Restricted(m) => format!("in:{}", dpath(tcx, m)),
                };
                fns.push(format!(
                    "{{\"path\":{},\"vis\":{},\"span\":{}}}",
                    q(&dpath(tcx, did)),
                    q(&vis),
                    span_json(tcx, tcx.def_span(did))
                ));
            }
            _ => {}
        }
    }

    // 3. trait tables for selected extern traits implemented locally
    let mut traits: Vec<String> = Vec::new();
    let wanted = ["serde_json::ser::Formatter"];
    for tr in tcx.all_traits_including_private() {
        let p = dpath(tcx, tr);
        if !wanted.contains(&p.as_str()) {
            continue;
        }
        // local impls of this trait
        let mut local_impls: Vec<DefId> = Vec::new();
        for ld in tcx.hir_crate_items(()).definitions() {
            let did = ld.to_def_id();
            if let DefKind::Impl { of_trait: true } = tcx.def_kind(did) {
                let t = tcx.impl_trait_ref(did).instantiate_identity().skip_norm_wip();
                if t.def_id == tr {
                    local_impls.push(did);
                }
            }
        }
        if local_impls.is_empty() {
            continue;
        }
        let mut methods: Vec<String> = Vec::new();
        for it in tcx.associated_items(tr).in_definition_order() {
            if !matches!(it.kind, ty::AssocKind::Fn { .. }) {
                continue;
            }
            let has_default = it.defaultness(tcx).has_value();
            let mut overridden: Vec<String> = Vec::new();
            for im in &local_impls {
                let map = tcx.impl_item_implementor_ids(*im);
                if let Some(x) = map.get(&it.def_id) {
                    overridden.push(q(&dpath(tcx, *x)));
                }
            }
            // default body (extern MIR), if available
            let mut dbody = "null".to_string();
            if has_default && tcx.is_mir_available(it.def_id) {
                let r = std::panic::catch_unwind(std::panic::AssertUnwindSafe(|| {
                    let b = tcx.optimized_mir(it.def_id);
                    let env = TypingEnv::post_analysis(tcx, it.def_id);
                    let cx = Cx { tcx, body: b, env };
                    cx.body_json(&dpath(tcx, it.def_id), "\"kind\":\"AssocFn\",\"src\":\"extern-optimized\",")
                }));
                if let Ok(s) = r {
                    dbody = s;
                }
            }
            methods.push(format!(
                "{{\"n\":{},\"path\":{},\"default\":{},\"impls\":{},\"default_body\":{}}}",
                q(&it.name().to_string()),
                q(&dpath(tcx, it.def_id)),
                has_default,
                list(&overridden),
                dbody
            ));
        }
        let li: Vec<String> = local_impls.iter().map(|d| q(&dpath(tcx, *d))).collect();
        traits.push(format!(
            "{{\"path\":{},\"local_impls\":{},\"methods\":{}}}",
            q(&p),
            list(&li),
            list(&methods)
        ));
    }

    let features: Vec<String> = std::env::args()
        .collect::<Vec<_>>()
        .windows(2)
        .filter(|w| w[0] == "--cfg" && w[1].starts_with("feature="))
        .map(|w| q(&w[1]))
        .collect();

    let out = format!(
        "{{\"crate\":{},\"crate_type\":{},\"features\":{},\"bodies\":{},\"adts\":{},\"impls\":{},\"fns\":{},\"consts\":{},\"traits\":{}}}\n",
        q(&cname),
        q(&ctype),
        list(&features),
        list(&body_json),
        list(&adts),
        list(&impls),
        list(&fns),
        list(&consts),
        list(&traits)
    );
    let file = format!("{}/{}-{}.json", out_dir, cname, ctype);
    let tmp = format!("{}.tmp.{}", file, std::process::id());
    std::fs::write(&tmp, out).expect("toughlint: cannot write facts");
    std::fs::rename(&tmp, &file).expect("toughlint: cannot rename facts");
}

struct Cb {
    out: Option<String>,
}

impl rustc_driver::Callbacks for Cb {
    fn after_expansion<'tcx>(
        &mut self,
        _compiler: &rustc_interface::interface::Compiler,
        tcx: TyCtxt<'tcx>,
    ) -> Compilation {
        if let Some(out) = &self.out {
            let cname = tcx.crate_name(LOCAL_CRATE).to_string();
            if MEMBERS.contains(&cname.as_str()) {
                // build scripts are named build_script_build; tests are not compiled by `check`
                emit(tcx, out);
            }
        }
        Compilation::Continue
    }
}

fn main() {
    let args: Vec<String> = std::env::args().collect();
    // argv[0] = toughlint, argv[1] = real rustc (becomes argv[0] for run_compiler)
    let rest: Vec<String> = args[1..].to_vec();
    let out = std::env::var("TOUGHLINT_OUT").ok();
    let mut cb = Cb { out };
    rustc_driver::run_compiler(&rest, &mut cb);
}
