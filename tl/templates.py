"""File-name templates: how a String value is assembled (format!, to_owned, literals).

A template is a list of pieces ('lit', text) | ('val', kind, origins) with kind in
VERSION (display of a version number), ENC (result of tough::encode_filename),
HEX (hex::encode), RAW (any other string value).
"""
from .facts import path_match
from .flow import Origin

FORMAT = "alloc::fmt::format"
ARGS_NEW = "core::fmt::Arguments::new"
ARGS_FROM_STR = "core::fmt::Arguments::from_str"
ARG_NEW = ("core::fmt::rt::Argument::new_display", "core::fmt::rt::Argument::new_debug",
           "core::fmt::rt::Argument::new_lower_hex")
ENCODE = "tough::encode_filename"


def decode_template(b):
    """-> list of ('lit', str) | ('arg', index or None)"""
    out = []
    i = 0
    n = len(b)
    while i < n:
        c = b[i]
        i += 1
        if c == 0:
            break
        if c < 0x80:
            out.append(("lit", b[i:i + c].decode("utf-8", "replace")))
            i += c
        elif c == 0x80:
            ln = b[i] | (b[i + 1] << 8)
            i += 2
            out.append(("lit", b[i:i + ln].decode("utf-8", "replace")))
            i += ln
        else:
            idx = None
            if c & 0x01:
                i += 4
            if c & 0x02:
                i += 2
            if c & 0x04:
                i += 2
            if c & 0x08:
                idx = b[i] | (b[i + 1] << 8)
                i += 2
            out.append(("arg", idx))
    return out


def _single_def(ctx, local):
    ds = ctx.origins.defs.get(local, [])
    return ds[0] if len(ds) == 1 else None


def _follow(ctx, op):
    """follow use/ref/copyderef/unsize-cast chains to the defining statement or call"""
    seen = set()
    while op is not None and not op.is_const and op.place is not None:
        l = op.place.local
        if l in seen:
            return None
        seen.add(l)
        d = _single_def(ctx, l)
        if d is None:
            return None
        kind, bb, idx, obj = d
        if kind == "call":
            return ("call", bb, obj)
        s = obj
        rv = s.rv
        if rv.k in ("use", "cast"):
            op = rv.ops[0]
            continue
        if rv.k in ("ref", "copyderef"):
            class _O:  # minimal operand view of a place
                pass
            o = _O()
            o.is_const = False
            o.place = rv.place
            op = o
            continue
        return ("stmt", bb, s)
    if op is not None and op.is_const:
        return ("const", None, op)
    return None


def classify(ctx, origins):
    kinds = set()
    for o in origins:
        if o.kind == "call" and path_match(o.key[1], ENCODE):
            kinds.add("ENC")
        elif o.kind == "call" and path_match(o.key[1], "hex::encode"):
            kinds.add("HEX")
        elif o.fields[-1:] == ("version",) or (o.kind == "call" and path_match(o.key[1], "core::num::nonzero::NonZero::get")):
            kinds.add("VERSION")
        elif o.kind == "bin":
            # arithmetic on a version number (N + 1)
            ok = False
            for a in o.extra.rv.ops:
                for x in ctx.origins.of_operand(a):
                    if x.fields[-1:] == ("version",):
                        ok = True
            kinds.add("VERSION" if ok else "RAW")
        elif o.kind == "call" and path_match(o.key[1], "tough::target_name::TargetName::resolved"):
            kinds.add("RESOLVED")
        else:
            kinds.add("RAW")
    if len(kinds) == 1:
        return kinds.pop()
    return "RAW" if kinds else "RAW"


def templates_of(ctx, operand):
    """all templates the String/&str operand can hold: list of (pieces, defining bb or None)"""
    out = []
    for o in ctx.origins.of_operand(operand):
        out.append(template_of_origin(ctx, o))
    return out


def template_of_origin(ctx, o):
    if o.kind == "const" and o.extra is not None and o.extra.const_str is not None:
        return ([("lit", o.extra.const_str)], None)
    if o.kind == "call" and path_match(o.key[1], FORMAT):
        t = o.extra
        f = _follow(ctx, t.args[0])
        if f and f[0] == "call" and f[2].is_call_to(ARGS_FROM_STR):
            s = ctx.const_str_of(f[2].args[0])
            if s is not None:
                return ([("lit", s)], o.key[0])
        if f and f[0] == "call" and f[2].is_call_to(ARGS_NEW):
            an = f[2]
            tf = _follow(ctx, an.args[0])
            tb = tf[2].const_bytes if tf and tf[0] == "const" else None
            af = _follow(ctx, an.args[1])
            if tb is not None and af and af[0] == "stmt" and af[2].rv.k == "agg" and af[2].rv.j["ak"] == "array":
                elems = af[2].rv.ops
                pieces = []
                nxt = 0
                for kind, val in decode_template(tb):
                    if kind == "lit":
                        pieces.append(("lit", val))
                    else:
                        idx = val if val is not None else nxt
                        if val is None:
                            nxt += 1
                        if idx >= len(elems):
                            pieces.append(("val", "RAW", frozenset()))
                            continue
                        ef = _follow(ctx, elems[idx])
                        if ef and ef[0] == "call" and ef[2].is_call_to(*ARG_NEW):
                            og = frozenset(ctx.origins.of_operand(ef[2].args[0]))
                            pieces.append(("val", classify(ctx, og), og))
                        else:
                            pieces.append(("val", "RAW", frozenset()))
                return (pieces, o.key[0])
        return ([("val", "RAW", frozenset([o]))], o.key[0])
    og = frozenset([o])
    return ([("val", classify(ctx, og), og)], o.key[0] if o.kind == "call" else None)


def shape(pieces):
    """printable shape, e.g. VERSION".snapshot.json" """
    out = []
    for p in pieces:
        if p[0] == "lit":
            out.append('"%s"' % p[1])
        else:
            out.append(p[1])
    return "".join(out) if out else '""'


# ---------------------------------------------------------------------------------------------
# Interprocedural expansion of RAW pieces (callee return values, parameters at all call sites)

def _returned_string_origins(ctx):
    og = set()
    for b in ctx.body.blocks:
        if b.cleanup:
            continue
        for s in b.stmts:
            if s.k == "assign" and s.place.local == 0 and not s.place.proj:
                if s.rv.k == "agg" and s.rv.j.get("variant") in ("Some", "Ok"):
                    og |= ctx.origins.of_operand(s.rv.ops[0])
                elif s.rv.k == "use":
                    og |= ctx.origins.of_operand(s.rv.ops[0])
        t = b.term
        if t is not None and t.k == "call" and t.dest.local == 0 and not t.dest.proj and \
                not t.is_call_to("core::ops::try_trait::FromResidual::from_residual"):
            og |= ctx.origins.of_local(0)
    return set(o for o in og if not (o.kind == "call" and o.extra is not None and
                                     o.extra.is_call_to("core::ops::try_trait::FromResidual::from_residual")))


def _param_index(body, name):
    for n, p, a in body.vdi:
        if n == name and not p.proj and 1 <= p.local <= body.argc:
            return p.local - 1
    return None


def _fn_of(path):
    return path[:-len("::{closure#0}")] if path.endswith("::{closure#0}") else path


def _callers(prog, fn_path):
    """(ctx, term) of every call of fn_path in the member crates"""
    from .rules.common import ctx_of
    out = []
    for b in prog.bodies.values():
        if "/.cargo/" in b.file:
            continue
        for bb, t in b.calls():
            if t.k == "call" and (t.resolved == fn_path or t.callee == fn_path):
                out.append((ctx_of(prog, b.path), bb, t))
    return out


def expand(prog, ctx, pieces, depth=4, _stack=()):
    """all fully expanded variants of a template: list of piece lists"""
    from .rules.common import ctx_of, async_body
    if depth < 0:
        return [pieces]
    variants = [[]]
    for pc in pieces:
        if pc[0] == "lit" or pc[1] != "RAW" or not pc[2]:
            variants = [v + [pc] for v in variants]
            continue
        alts = []
        for o in pc[2]:
            sub = None
            if o.kind == "call" and o.extra is not None and not o.fields:
                t = o.extra
                callee = t.resolved or t.callee
                targets = []
                if callee and prog.body(callee) is not None:
                    targets = [callee]
                elif t.is_call_to("tough::schema::Role::filename"):
                    targets = [p for p in prog.bodies if p.endswith("::filename") and " as tough::schema::Role>" in p]
                for tp in targets:
                    if tp in _stack:
                        continue
                    cctx = async_body(prog, tp) or ctx_of(prog, tp)
                    if cctx is None:
                        continue
                    for ro in _returned_string_origins(cctx):
                        p2, _ = template_of_origin(cctx, ro)
                        sub = (sub or []) + expand(prog, cctx, p2, depth - 1, _stack + (tp,))
            elif o.kind in ("upvar", "param") and not o.fields:
                fn = _fn_of(ctx.body.path)
                fb = prog.body(fn)
                idx = _param_index(fb, o.key[1]) if fb is not None else None
                if idx is not None and fn not in _stack:
                    for cctx, bb, t in _callers(prog, fn):
                        if idx < len(t.args):
                            for p2, _ in templates_of(cctx, t.args[idx]):
                                sub = (sub or []) + expand(prog, cctx, p2, depth - 1, _stack + (fn,))
            if sub is None:
                sub = [[("val", classify_deep(ctx, frozenset([o])), frozenset([o]))]]
            alts.extend(sub)
        variants = [v + a for v in variants for a in alts]
    return variants


def classify_deep(ctx, origins):
    k = classify(ctx, origins)
    if k != "RAW":
        return k
    from .rules.common import deep_origins
    for o in origins:
        if o.kind == "call" and o.extra is not None:
            for a in o.extra.args:
                for x in ctx.origins.of_operand(a):
                    pass
            deep = set()
            work = [o]
            seen = set()
            d = 0
            while work and d < 40:
                d += 1
                c = work.pop()
                if c.ident() in seen:
                    continue
                seen.add(c.ident())
                deep.add(c)
                if c.kind == "call" and c.extra is not None:
                    for a in c.extra.args:
                        work.extend(ctx.origins.of_operand(a))
                elif c.kind == "agg" and c.extra is not None and hasattr(c.extra, "rv"):
                    for a in c.extra.rv.ops:
                        work.extend(ctx.origins.of_operand(a))
            names = " ".join(x.key[1] for x in deep if x.kind == "call") + " " + \
                " ".join(str(x.key[2]) for x in deep if x.kind == "agg")
            for x in list(deep):
                if x.kind == "bin" and x.extra is not None:
                    for a in x.extra.rv.ops:
                        deep |= set(ctx.origins.of_operand(a))
            if any(x.fields[-1:] == ("version",) for x in deep) and ("Range" in names or "range" in names or "rev" in names):
                return "VERSION"
        if o.fields[-1:] == ("name",) or (o.kind in ("param", "upvar") and o.key[1] in ("name", "role", "role_name", "targets_role")):
            return "ROLENAME"
    return "RAW"


def sink_templates(prog, ctx, operand):
    """fully expanded shapes reaching a file-name sink: list of (shape string, pieces)"""
    out = []
    for pieces, _ in templates_of(ctx, operand):
        for v in expand(prog, ctx, pieces):
            v2 = [pc if pc[0] == "lit" or pc[1] != "RAW" else ("val", classify_deep(ctx, pc[2]), pc[2]) for pc in v]
            out.append((shape(v2), v2))
    return out
