"""File-name templates: how a String value is assembled (format!, to_owned, literals).

A template is a list of pieces ('lit', text) | ('val', kind, origins) with kind in
VERSION (display of a version number), ENC (result of tough::encode_filename),
HEX (hex::encode), RAW (any other string value).
"""
from .facts import path_match
from .flow import Origin

FORMAT = "alloc::fmt::format"
ARGS_NEW = "core::fmt::Arguments::new"
ARGS_FROM_STR = "core::fmt::Arguments::from_str"
ARG_NEW = ("core::fmt::rt::Argument::new_display", "core::fmt::rt::Argument::new_debug",
           "core::fmt::rt::Argument::new_lower_hex")
ENCODE = "tough::encode_filename"


def decode_template(b):
    """-> list of ('lit', str) | ('arg', index or None)"""
    out = []
    i = 0
    n = len(b)
    while i < n:
        c = b[i]
        i += 1
        if c == 0:
            break
        if c < 0x80:
            out.append(("lit", b[i:i + c].decode("utf-8", "replace")))
            i += c
        elif c == 0x80:
            ln = b[i] | (b[i + 1] << 8)
            i += 2
            out.append(("lit", b[i:i + ln].decode("utf-8", "replace")))
            i += ln
        else:
            idx = None
            if c & 0x01:
                i += 4
            if c & 0x02:
                i += 2
            if c & 0x04:
                i += 2
            if c & 0x08:
                idx = b[i] | (b[i + 1] << 8)
                i += 2
            out.append(("arg", idx))
    return out


def _single_def(ctx, local):
    ds = ctx.origins.defs.get(local, [])
    return ds[0] if len(ds) == 1 else None


def _follow(ctx, op):
    """follow use/ref/copyderef/unsize-cast chains to the defining statement or call"""
    seen = set()
    while op is not None and not op.is_const and op.place is not None:
        l = op.place.local
        if l in seen:
            return None
        seen.add(l)
        d = _single_def(ctx, l)
        if d is None:
            return None
        kind, bb, idx, obj = d
        if kind == "call":
            return ("call", bb, obj)
        s = obj
        rv = s.rv
        if rv.k in ("use", "cast"):
            op = rv.ops[0]
            continue
        if rv.k in ("ref", "copyderef"):
            class _O:  # minimal operand view of a place
                pass
            o = _O()
            o.is_const = False
            o.place = rv.place
            op = o
            continue
        return ("stmt", bb, s)
    if op is not None and op.is_const:
        return ("const", None, op)
    return None


def classify(ctx, origins):
    kinds = set()
    for o in origins:
        if o.kind == "call" and path_match(o.key[1], ENCODE):
            kinds.add("ENC")
        elif o.kind == "call" and path_match(o.key[1], "hex::encode"):
            kinds.add("HEX")
        elif o.fields[-1:] == ("version",) or (o.kind == "call" and path_match(o.key[1], "core::num::nonzero::NonZero::get")):
            kinds.add("VERSION")
        elif o.kind == "bin":
            # arithmetic on a version number (N + 1)
            ok = False
            for a in o.extra.rv.ops:
                for x in ctx.origins.of_operand(a):
                    if x.fields[-1:] == ("version",):
                        ok = True
            kinds.add("VERSION" if ok else "RAW")
        elif o.kind == "call" and path_match(o.key[1], "tough::target_name::TargetName::resolved"):
            kinds.add("RESOLVED")
        else:
            kinds.add("RAW")
    if len(kinds) == 1:
        return kinds.pop()
    return "RAW" if kinds else "RAW"


def templates_of(ctx, operand):
    """all templates the String/&str operand can hold: list of (pieces, defining bb or None)"""
    out = []
    for o in ctx.origins.of_operand(operand):
        out.append(template_of_origin(ctx, o))
    return out


def template_of_origin(ctx, o):
    if o.kind == "const" and o.extra is not None and o.extra.const_str is not None:
        return ([("lit", o.extra.const_str)], None)
    if o.kind == "call" and path_match(o.key[1], FORMAT):
        t = o.extra
        f = _follow(ctx, t.args[0])
        if f and f[0] == "call" and f[2].is_call_to(ARGS_FROM_STR):
            s = ctx.const_str_of(f[2].args[0])
            if s is not None:
                return ([("lit", s)], o.key[0])
        if f and f[0] == "call" and f[2].is_call_to(ARGS_NEW):
            an = f[2]
            tf = _follow(ctx, an.args[0])
            tb = tf[2].const_bytes if tf and tf[0] == "const" else None
            af = _follow(ctx, an.args[1])
            if tb is not None and af and af[0] == "stmt" and af[2].rv.k == "agg" and af[2].rv.j["ak"] == "array":
                elems = af[2].rv.ops
                pieces = []
                nxt = 0
                for kind, val in decode_template(tb):
                    if kind == "lit":
                        pieces.append(("lit", val))
                    else:
                        idx = val if val is not None else nxt
                        if val is None:
                            nxt += 1
                        if idx >= len(elems):
                            pieces.append(("val", "RAW", frozenset()))
                            continue
                        ef = _follow(ctx, elems[idx])
                        if ef and ef[0] == "call" and ef[2].is_call_to(*ARG_NEW):
                            og = frozenset(ctx.origins.of_operand(ef[2].args[0]))
                            pieces.append(("val", classify(ctx, og), og))
                        else:
                            pieces.append(("val", "RAW", frozenset()))
                return (pieces, o.key[0])
        return ([("val", "RAW", frozenset([o]))], o.key[0])
    og = frozenset([o])
    return ([("val", classify(ctx, og), og)], o.key[0] if o.kind == "call" else None)


def shape(pieces):
    """printable shape, e.g. VERSION".snapshot.json" """
    out = []
    for p in pieces:
        if p[0] == "lit":
            out.append('"%s"' % p[1])
        else:
            out.append(p[1])
    return "".join(out) if out else '""'
