"""Control-flow graph over the normal (non-unwind) edges of a MIR body.

Edges are triples (src, dst, label); label is the SwitchInt value (int), 'otherwise', or None.
The workhorse is edge-removal reachability: "B is unreachable from A once the edges in E are
removed" decides every must-pass-through rule without caring how the code between the anchors
is laid out.
"""


class CFG:
    def __init__(self, body):
        self.body = body
        blocks = body.blocks
        self.n = len(blocks)
        self.succ = [[] for _ in range(self.n)]
        self.pred = [[] for _ in range(self.n)]
        for b in blocks:
            if b.cleanup or b.term is None:
                continue
            t = b.term
            if t.k == "switch":
                for v, d in t.tv:
                    self._add(b.idx, d, v)
                self._add(b.idx, t.otherwise, "otherwise")
            else:
                for d in t.succs():
                    self._add(b.idx, d, None)
        self._dom = None
        self._unreachable_otherwise()

    def _add(self, s, d, lab):
        if self.body.blocks[d].cleanup:
            return
        e = (s, d, lab)
        self.succ[s].append(e)
        self.pred[d].append(e)

    def _unreachable_otherwise(self):
        pass

    def edges(self):
        for s in range(self.n):
            for e in self.succ[s]:
                yield e

    def reach(self, starts=(0,), removed_edges=(), removed_blocks=()):
        """blocks reachable from `starts` (inclusive) avoiding removed edges/blocks"""
        removed_edges = set(removed_edges)
        removed_blocks = set(removed_blocks)
        seen = set()
        work = [s for s in starts if s not in removed_blocks]
        seen.update(work)
        while work:
            b = work.pop()
            for e in self.succ[b]:
                if e in removed_edges:
                    continue
                d = e[1]
                if d in removed_blocks or d in seen:
                    continue
                seen.add(d)
                work.append(d)
        return seen

    def reach_from_edges(self, edges, removed_edges=(), removed_blocks=()):
        """blocks reachable after taking one of `edges`"""
        return self.reach([e[1] for e in edges], removed_edges, removed_blocks)

    def backward_reach(self, targets, removed_edges=(), removed_blocks=()):
        removed_edges = set(removed_edges)
        removed_blocks = set(removed_blocks)
        seen = set(t for t in targets if t not in removed_blocks)
        work = list(seen)
        while work:
            b = work.pop()
            for e in self.pred[b]:
                if e in removed_edges:
                    continue
                s = e[0]
                if s in removed_blocks or s in seen:
                    continue
                seen.add(s)
                work.append(s)
        return seen

    def must_pass(self, targets, via_edges, starts=(0,), removed_blocks=()):
        """True iff no target block is reachable from starts once via_edges are removed."""
        r = self.reach(starts, via_edges, removed_blocks)
        return not (r & set(targets))

    def witness_path(self, targets, removed_edges=(), starts=(0,), removed_blocks=()):
        """a shortest path (list of blocks) from starts to any target avoiding removed edges"""
        from collections import deque
        removed_edges = set(removed_edges)
        removed_blocks = set(removed_blocks)
        targets = set(targets)
        prev = {}
        dq = deque()
        for s in starts:
            if s in removed_blocks:
                continue
            prev[s] = None
            dq.append(s)
        while dq:
            b = dq.popleft()
            if b in targets:
                path = []
                while b is not None:
                    path.append(b)
                    b = prev[b]
                return list(reversed(path))
            for e in self.succ[b]:
                if e in removed_edges or e[1] in removed_blocks or e[1] in prev:
                    continue
                prev[e[1]] = b
                dq.append(e[1])
        return None

    # --- dominators (simple iterative; bodies are small) ---
    def dominators(self):
        if self._dom is not None:
            return self._dom
        reach = self.reach()
        order = self._rpo()
        dom = {b: None for b in order}
        dom[0] = {0}
        changed = True
        while changed:
            changed = False
            for b in order:
                if b == 0:
                    continue
                ps = [dom[e[0]] for e in self.pred[b] if e[0] in reach and dom.get(e[0]) is not None]
                if not ps:
                    continue
                new = set.intersection(*ps) | {b}
                if new != dom[b]:
                    dom[b] = new
                    changed = True
        self._dom = dom
        return dom

    def dominates(self, a, b):
        d = self.dominators().get(b)
        return d is not None and a in d

    def _rpo(self):
        seen = set()
        post = []
        stack = [(0, iter(self.succ[0]))]
        seen.add(0)
        while stack:
            b, it = stack[-1]
            adv = False
            for e in it:
                d = e[1]
                if d not in seen:
                    seen.add(d)
                    stack.append((d, iter(self.succ[d])))
                    adv = True
                    break
            if not adv:
                post.append(b)
                stack.pop()
        return list(reversed(post))

    def postdominators(self):
        """pdom[b] = blocks that lie on every path from b to a normal exit (return); blocks that
        cannot reach a return (diverging) post-dominate nothing but themselves"""
        if getattr(self, "_pdom", None) is not None:
            return self._pdom
        exits = set(self.return_blocks())
        can_exit = self.backward_reach(exits)
        nodes = [b for b in self.reach() if b in can_exit]
        allset = set(nodes)
        pdom = {b: (set([b]) if b in exits else set(allset)) for b in nodes}
        changed = True
        while changed:
            changed = False
            for b in nodes:
                if b in exits:
                    continue
                ss = [pdom[e[1]] for e in self.succ[b] if e[1] in pdom]
                if not ss:
                    continue
                new = set.intersection(*ss) | {b}
                if new != pdom[b]:
                    pdom[b] = new
                    changed = True
        self._pdom = pdom
        return pdom

    def control_switches(self, block):
        """switch blocks S on which `block` is directly control dependent: some successor X of S
        is post-dominated by `block` (or is it) while S itself is not"""
        pdom = self.postdominators()
        out = []
        for s in range(self.n):
            t = self.body.blocks[s].term
            if t is None or t.k != "switch" or s not in pdom:
                continue
            if block in pdom[s] and s != block:
                continue
            edges = [e for e in self.succ[s] if e[1] in pdom and (e[1] == block or block in pdom[e[1]])]
            if edges:
                out.append((s, edges))
        return out

    def edge_dominates(self, edge, block):
        """every path entry -> block uses `edge`"""
        return block not in self.reach((0,), {edge})

    def edges_dominate(self, edges, block):
        return block not in self.reach((0,), set(edges))

    # --- loops ---
    def back_edges(self):
        out = []
        dom = self.dominators()
        for e in self.edges():
            s, d, _ = e
            if dom.get(s) is not None and d in dom[s]:
                out.append(e)
        return out

    def natural_loop(self, back_edge):
        s, h, _ = back_edge
        body = {h}
        work = [s]
        while work:
            b = work.pop()
            if b in body:
                continue
            body.add(b)
            for e in self.pred[b]:
                work.append(e[0])
        return body

    def sccs(self):
        """Tarjan SCCs over reachable blocks; returns list of sets with a cycle"""
        index = {}
        low = {}
        onstack = set()
        stack = []
        out = []
        counter = [0]
        import sys
        sys.setrecursionlimit(10000)

        def strong(v):
            index[v] = low[v] = counter[0]
            counter[0] += 1
            stack.append(v)
            onstack.add(v)
            for e in self.succ[v]:
                w = e[1]
                if w not in index:
                    strong(w)
                    low[v] = min(low[v], low[w])
                elif w in onstack:
                    low[v] = min(low[v], index[w])
            if low[v] == index[v]:
                comp = set()
                while True:
                    w = stack.pop()
                    onstack.discard(w)
                    comp.add(w)
                    if w == v:
                        break
                if len(comp) > 1 or any(e[1] == v for e in self.succ[v]):
                    out.append(comp)

        for v in self.reach():
            if v not in index:
                strong(v)
        return out

    def return_blocks(self):
        return [b.idx for b in self.body.blocks if not b.cleanup and b.term is not None and b.term.k == "return"]
