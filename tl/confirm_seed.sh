#!/bin/bash
# usage: confirm_seed.sh <ID> <A|B>   — confirm a sub-agent's seeded change in a scratch worktree:
#   demo passes on HEAD, fails with the patch, whole suite passes with the patch.
# Keeps it as /verif/seeded/<ID>-<variant>/ only if all three hold.
set -u
ID=$1; V=$2
SRC=/tmp/seed-out/$ID/$V
WT=${CONFIRM_WT:-/tmp/confirm-wt}
export CARGO_NET_OFFLINE=true
[ -n "${CONFIRM_TARGET:-}" ] && export CARGO_TARGET_DIR=$CONFIRM_TARGET
LOG=/tmp/seed-out/$ID/$V/confirm.log
: > $LOG
if [ ! -d $WT ]; then git -C /repo worktree add -q --detach $WT HEAD >>$LOG 2>&1 || exit 2; fi
cd $WT && git checkout -q --detach $(git -C /repo rev-parse HEAD) && git checkout -q -- . && git clean -fdq -e target
DEMO_PATH=$(python3 -c "import json;print(json.load(open('$SRC/meta.json'))['demo_path'])")
DEMO_CMD=$(python3 -c "import json;print(json.load(open('$SRC/meta.json'))['demo_cmd'])")
DEMO_FILE=$(find $SRC/demo -type f -name "*.rs" | head -1)
mkdir -p $(dirname $WT/$DEMO_PATH); cp $DEMO_FILE $WT/$DEMO_PATH
echo "== demo on clean HEAD: $DEMO_CMD" >>$LOG
( cd $WT && eval "$DEMO_CMD" ) >>$LOG 2>&1; R_CLEAN=$?
git -C $WT apply $SRC/patch.diff >>$LOG 2>&1 || { echo "patch does not apply" >>$LOG; exit 3; }
echo "== demo with patch" >>$LOG
( cd $WT && eval "$DEMO_CMD" ) >>$LOG 2>&1; R_PATCH=$?
rm -f $WT/$DEMO_PATH
echo "== suite with patch" >>$LOG
( cd $WT && cargo nextest run --workspace --no-fail-fast --offline ) >>$LOG 2>&1; R_SUITE=$?
SUMMARY=$(grep -E "Summary|tests run" $LOG | tail -1)
git -C $WT checkout -q -- . ; git -C $WT clean -fdq -e target
echo "clean=$R_CLEAN patch=$R_PATCH suite=$R_SUITE $SUMMARY" | tee -a $LOG
if [ $R_CLEAN -eq 0 ] && [ $R_PATCH -ne 0 ] && [ $R_SUITE -eq 0 ]; then
  D=/verif/seeded/$ID-$V; mkdir -p $D/demo
  cp $SRC/patch.diff $D/patch.diff; cp $DEMO_FILE $D/demo/
  python3 - <<PY
import json
m=json.load(open('$SRC/meta.json'))
m['confirmed']={'demo_on_head':'pass','demo_with_patch':'fail','suite_with_patch':'$SUMMARY'.strip(),
 'ran':['git apply patch.diff in scratch worktree $WT','$DEMO_CMD (clean: exit $R_CLEAN, patched: exit $R_PATCH)','cargo nextest run --workspace --no-fail-fast --offline (patched: exit $R_SUITE)']}
json.dump(m,open('$D/meta.json','w'),indent=1)
PY
  echo "KEPT $D"
else
  echo "REJECTED $ID $V"
fi
