"""python3 -m tl.matrix_from_log <mutate_all log>: write seeded/MATRIX.md (and checked_against in each
seeded/<ID>-<V>/meta.json) from a `tl.mutate_all` run — the seeded changes are part of mutants/<ID>/ as
NN-seed*-<V>*.patch, so the corpus run already applied each of them to a scratch copy of the current
/repo and ran the property's check on it."""
import glob, json, os, re, sys, hashlib
from . import build


def main():
    log = open(sys.argv[1]).read().splitlines()
    prop = None
    res = {}
    for l in log:
        if l.startswith("## "):
            prop = l[3:].strip()
            continue
        m = re.match(r"(\S+\.patch)\s+(\S+)\s*(.*)", l)
        if m and prop:
            res[(prop, m.group(1))] = (m.group(2), m.group(3).strip())
    rows = []
    for d in sorted(glob.glob(os.path.join(build.VERIF, "seeded", "C*-*"))):
        name = os.path.basename(d)
        prop, v = name.split("-")
        want = open(os.path.join(d, "patch.diff"), "rb").read()
        hit = None
        for p in glob.glob(os.path.join(build.VERIF, "mutants", prop, "*seed*.patch")):
            if open(p, "rb").read() == want:
                hit = os.path.basename(p)
        if hit is None:
            # the copy in mutants/ may be a re-based form of the same change (C18-B): match by variant letter
            for p in glob.glob(os.path.join(build.VERIF, "mutants", prop, "*seed*.patch")):
                bn = os.path.basename(p)
                if ("-%s-" % v) in bn or bn.endswith("-%s.patch" % v):
                    hit = bn
        st, rules = res.get((prop, hit), ("not-run", "")) if hit else ("no-mutant-copy", "")
        mp = os.path.join(d, "meta.json")
        meta = json.load(open(mp))
        meta["checked_against"] = {"property_check": prop, "status": st, "reported_by": [r.strip() for r in rules.split(";") if r.strip()],
                                   "how": "python3 -m tl.mutate_all %s (mutants/%s/%s is a copy of this patch; scratch copy of /repo, facts regenerated)" % (prop, prop, hit)}
        json.dump(meta, open(mp, "w"), indent=1)
        rows.append((name, st, rules, (meta.get("summary") or "")[:110].replace("\n", " ")))
    with open(os.path.join(build.VERIF, "seeded", "MATRIX.md"), "w") as f:
        f.write("# Seeded changes vs. checks\n\nEach row: a change produced independently by a sub-agent (given only the property text), "
                "confirmed in a scratch worktree (demo passes on HEAD, fails with the patch, the 146-test suite passes with the patch), "
                "then applied to a scratch copy of /repo and run against the property's static check.\n\n"
                "| seed | status | reported by (rule:function:instance) | what the change does |\n|---|---|---|---|\n")
        for name, st, rules, summ in rows:
            f.write("| %s | %s | %s | %s |\n" % (name, st, "<br>".join(r.strip() for r in rules.split(";")[:4]), summ.replace("|", "/")))
    bad = [r for r in rows if r[1] != "flagged"]
    print("%d seeds, %d not flagged: %s" % (len(rows), len(bad), [(r[0], r[1]) for r in bad]))


if __name__ == "__main__":
    main()
