"""mkmut: create a mutant patch by exact substring replacement.
usage: python3 -m tl.mkmut <out.patch> <repo-relative-file> <old> <new> [<file2> <old2> <new2> ...]
The old text must occur exactly once (or use @N suffix on file to pick the N-th occurrence, 1-based)."""
import difflib
import os
import sys

REPO = os.environ.get("TOUGH_REPO", "/repo")


def main():
    out = sys.argv[1]
    args = sys.argv[2:]
    diffs = []
    texts = {}
    for i in range(0, len(args), 3):
        rel, old, new = args[i], args[i + 1], args[i + 2]
        nth = None
        if "@" in rel:
            rel, n = rel.rsplit("@", 1)
            nth = int(n)
        src = texts.get(rel)
        if src is None:
            src = open(os.path.join(REPO, rel)).read()
            texts.setdefault(rel + "#orig", src)
        cnt = src.count(old)
        if cnt == 0:
            sys.exit("old text not found in %s: %r" % (rel, old[:60]))
        if cnt > 1 and nth is None:
            sys.exit("old text occurs %d times in %s (use file@N)" % (cnt, rel))
        if nth is None:
            dst = src.replace(old, new, 1)
        else:
            idx = -1
            for _ in range(nth):
                idx = src.index(old, idx + 1)
            dst = src[:idx] + new + src[idx + len(old):]
        texts[rel] = dst
    for rel, dst in texts.items():
        if rel.endswith("#orig"):
            continue
        src = texts[rel + "#orig"]
        diffs.append("".join(difflib.unified_diff(src.splitlines(True), dst.splitlines(True),
                                                  "a/" + rel, "b/" + rel)))
    os.makedirs(os.path.dirname(os.path.abspath(out)), exist_ok=True)
    open(out, "w").write("".join(diffs))


if __name__ == "__main__":
    main()
