"""Obligation bookkeeping, known findings, evidence files and the VIOLATION contract."""
import json
import os
import re
import sys
import time

VERIF = os.path.dirname(os.path.dirname(os.path.abspath(__file__)))
KNOWN = os.path.join(VERIF, "KNOWN_FINDINGS.txt")


def site_of(sp):
    if sp is None:
        return "?"
    return "%s:%s" % (sp.get("f", "?"), sp.get("l", "?"))


def load_known():
    """lines: `known: property=<id> key=<key> :: <what fails>`; `fixed: ...` lines suppress nothing"""
    out = {}
    if not os.path.exists(KNOWN):
        return out
    for line in open(KNOWN):
        line = line.strip()
        if not line or line.startswith("#"):
            continue
        m = re.match(r"^known:\s+property=(\S+)\s+key=(\S+)\s+::\s+(.*)$", line)
        if m:
            out[(m.group(1), m.group(2))] = m.group(3)
    return out


class Check:
    def __init__(self, prop, tier="quick", seed=0):
        self.prop = prop
        self.tier = tier
        self.seed = seed
        self.t0 = time.time()
        self.obligations = []     # dicts
        self.violations = []      # dicts with key
        self.analysed = {"bodies": set(), "call_sites": 0, "configs": []}
        self.floors = {}
        self.rules_live = []
        self.not_decided = []
        self.assumptions = []
        self.explanation = ""
        self.write_evidence = True
        self.self_validation = None

    # ---- recording ----
    def analysed_body(self, body):
        self.analysed["bodies"].add(body.path)

    def ok(self, rule, function, instance, site=None, detail=""):
        self.obligations.append({"rule": rule, "function": function, "instance": instance,
                                 "site": site, "verdict": "holds", "detail": detail})

    def fail(self, rule, function, instance, message, site=None, path=None, kind="violation"):
        key = "%s:%s:%s:%s" % (self.prop, rule, function, instance)
        self.obligations.append({"rule": rule, "function": function, "instance": instance,
                                 "site": site, "verdict": kind, "detail": message})
        self.violations.append({"key": key, "rule": rule, "function": function, "instance": instance,
                                "site": site, "message": message, "path": path, "kind": kind})

    def require(self, cond, rule, function, instance, message, site=None, detail="", path=None):
        if cond:
            self.ok(rule, function, instance, site, detail)
        else:
            self.fail(rule, function, instance, message, site, path)
        return cond

    def anchor_missing(self, rule, what, detail=""):
        self.fail(rule, what, "anchor", "anchor-missing: %s %s" % (what, detail), kind="anchor-missing")

    def floor(self, rule, found, expected, what):
        """a rule that matches fewer sites than were counted by hand fails closed"""
        self.floors[rule] = {"found": found, "floor": expected, "what": what}
        if found < expected:
            self.fail(rule, what, "floor", "anchor-missing: expected at least %d %s, found %d"
                      % (expected, what, found), kind="anchor-missing")
            return False
        return True

    # ---- finishing ----
    def finish(self):
        known = load_known()
        wall = time.time() - self.t0
        new = []
        kf = []
        for v in self.violations:
            k = (self.prop, v["key"])
            if k in known:
                kf.append((v, known[k]))
            else:
                new.append(v)
        evdir = os.path.join(VERIF, "evidence")
        os.makedirs(os.path.join(evdir, "violations"), exist_ok=True)
        sites = set((o["function"], o["instance"]) for o in self.obligations)
        held = [o for o in self.obligations if o["verdict"] == "holds"]
        samples = []
        byrule = {}
        for o in self.obligations:
            byrule.setdefault(o["rule"], []).append(o)
        for r, os_ in sorted(byrule.items()):
            for o in os_[:3]:
                samples.append(o)
        ev = {
            "property_id": self.prop,
            "tier": self.tier,
            "seed": self.seed,
            "level": "other",
            "coverage": {
                "explanation": self.explanation,
                "evaluations": len(self.obligations),
                "distinct_nontrivial": len(sites),
                "rule": "one evaluation = one rule instance (an obligation over a named function/"
                        "call site of /repo's current MIR/attributes); distinct = distinct "
                        "(function, instance) pairs; every instance is non-trivial in that it is "
                        "anchored at a concrete construct and would fail if that construct changed",
                "samples": samples,
                "obligations": len(self.obligations),
                "discharged": len(held),
                "exhaustive": True,
                "rules_live": self.rules_live,
                "floors": self.floors,
                "bodies_analysed": len(self.analysed["bodies"]),
                "bodies": sorted(self.analysed["bodies"])[:80],
                "configs": self.analysed["configs"],
                "by_rule": {r: {"instances": len(v), "holds": sum(1 for o in v if o["verdict"] == "holds")}
                            for r, v in byrule.items()},
                "not_decided": self.not_decided,
                "known_findings": [v["key"] for v, _ in kf],
                "self_validation": self.self_validation,
            },
            "assumptions": self.assumptions,
            "wall_s": round(wall, 2),
            "violations": len(new),
        }
        if self.write_evidence:
            with open(os.path.join(evdir, self.prop + ".json"), "w") as f:
                json.dump(ev, f, indent=1, default=str)
        print("property %s tier=%s: %d rule instances evaluated, %d hold, %d known findings, %d violations (%.1fs)"
              % (self.prop, self.tier, len(self.obligations), len(held), len(kf), len(new), wall))
        for r, v in sorted(byrule.items()):
            print("  rule %-4s instances=%d holds=%d" % (r, len(v), sum(1 for o in v if o["verdict"] == "holds")))
        for v, what in kf:
            print("KNOWN-FINDING: property=%s %s [%s] %s" % (self.prop, what, v["key"], v["site"] or ""))
        rc = 0
        for v in new:
            fn = re.sub(r"[^A-Za-z0-9_.-]+", "_", v["key"])[:150] + ".json"
            rp = os.path.join(evdir, "violations", fn)
            if self.write_evidence:
                with open(rp, "w") as f:
                    json.dump(v, f, indent=1, default=str)
            print("  %s %s rule=%s function=%s instance=%s\n      %s" % (
                v["kind"].upper(), v["site"] or "", v["rule"], v["function"], v["instance"], v["message"]))
            if v.get("path"):
                print("      path: %s" % v["path"])
            print("VIOLATION property=%s replay=%s" % (self.prop, rp))
            rc = 1
        sys.stdout.flush()
        return rc
