"""python3 -m tl.patch_all <patch> [ID ...] [-j N]: run the checks of every (or the named) property on ONE
scratch copy of /repo with the patch applied — facts are generated once (first check), the other
checks run in parallel on the cached facts.  Prints one line per property that is not silent and a
summary line; exit 0 iff silent under all.  Used for the false-alarm corpus (benign/) and for seeds."""
import os, re, shutil, subprocess, sys
from concurrent.futures import ThreadPoolExecutor
from . import build, mutate


def one(prop, d):
    env = dict(os.environ); env["TOUGH_REPO"] = d
    r = subprocess.run([sys.executable, os.path.join(build.VERIF, "check"), prop, "--repo", d, "--no-evidence"],
                       stdout=subprocess.PIPE, stderr=subprocess.STDOUT, text=True, env=env)
    out = r.stdout
    st = "build-failed" if "BUILD-FAILED" in out else ("silent" if r.returncode == 0 else "flagged")
    return prop, st, out


def main():
    args = sys.argv[1:]
    j = 8
    if "-j" in args:
        i = args.index("-j"); j = int(args[i + 1]); del args[i:i + 2]
    patch = args[0]
    props = args[1:] or ["C%02d" % i for i in range(1, 21)]
    d = mutate.scratch_copy()
    try:
        ok, out = mutate.apply_patch(d, patch)
        if not ok:
            print("patch-failed", out); return 2
        res = [one(props[0], d)]
        if res[0][1] != "build-failed":
            with ThreadPoolExecutor(j) as ex:
                res += list(ex.map(lambda p: one(p, d), props[1:]))
        bad = 0
        for prop, st, out in res:
            if st != "silent":
                bad += 1
                rules = sorted(set(re.findall(r"rule=(\S+) function=(.+?) instance=(\S+)", out)))
                print("%s %s %s %s" % (os.path.basename(patch), prop, st,
                                       "; ".join("%s:%s:%s" % (r, f.split("::")[-1], i) for r, f, i in rules)[:400]))
                if st == "build-failed":
                    print("\n".join(out.splitlines()[-25:]))
        print("%s: %s" % (os.path.basename(patch), "silent under all %d" % len(props) if not bad else "%d not silent" % bad))
        return 1 if bad else 0
    finally:
        shutil.rmtree(d, ignore_errors=True)


if __name__ == "__main__":
    sys.exit(main())
