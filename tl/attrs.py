"""serde/derive attribute facts (from attrscan) joined to the driver's ADT facts."""
import json
import os
import re


class Attrs:
    def __init__(self, facts_dir):
        with open(os.path.join(facts_dir, "attrs.json")) as f:
            self.items = [i for i in json.load(f)["items"] if not i.get("test")]

    def type_item(self, adt_path):
        """attr item for an ADT def path like tough::schema::Root (matched by file/module + name)"""
        parts = adt_path.split("::")
        crate, mods, name = parts[0], parts[1:-1], parts[-1]
        crate_dir = {"tough": "tough/src", "olpc_cjson": "olpc-cjson/src", "tuftool": "tuftool/src",
                     "tough_kms": "tough-kms/src", "tough_ssm": "tough-ssm/src"}.get(crate)
        cands = [i for i in self.items if i["kind"] in ("struct", "enum") and i["name"] == name and
                 crate_dir and i["file"].startswith(crate_dir)]
        best = None
        for i in cands:
            rel = i["file"][len(crate_dir) + 1:-3]          # schema/mod, lib, schema/key
            fmods = [m for m in rel.split("/") if m not in ("mod", "lib", "main")]
            fmods += [m for m in i["module"].split("::") if m]
            if fmods == mods:
                best = i
        return best


def serde_map(entries):
    """['tag = "_type"', 'flatten'] -> {'tag': '_type', 'flatten': True}"""
    out = {}
    for e in entries:
        m = re.match(r'^(\w+)\s*=\s*"(.*)"$', e.strip(), re.S)
        if m:
            out[m.group(1)] = m.group(2).replace(" ", "")
        else:
            out[e.strip().split("(")[0].strip()] = True
    return out
