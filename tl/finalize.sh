#!/bin/bash
# refresh every evidence file from the current /repo, drop stale replay files, regenerate the manifest
cd /verif || exit 1
rm -f evidence/violations/*.json
rc=0
for i in $(seq -w 1 20); do
  ./check C$i > /tmp/final-C$i.out 2>&1; r=$?
  head -1 /tmp/final-C$i.out
  [ $r -ne 0 ] && { rc=1; grep "VIOLATION" /tmp/final-C$i.out | head -3; }
done
python3 -m tl.manifest | tail -1
ls evidence/violations/ 2>/dev/null | head
exit $rc
