"""Building the tools and (re)generating facts from /repo's current working tree.

facts are cached under /verif/.work/facts/<config>-<hash of all member sources>; the hash
guarantees that the rules always see the tree as it is now.
"""
import fcntl
import hashlib
import os
import shutil
import subprocess
import sys
import time

VERIF = os.path.dirname(os.path.dirname(os.path.abspath(__file__)))
REPO = os.environ.get("TOUGH_REPO", "/repo")
WORK = os.path.join(VERIF, ".work")
DRIVER = os.path.join(VERIF, "driver", "target", "debug", "toughlint")
ATTRSCAN = os.path.join(VERIF, "attrscan", "target", "debug", "attrscan")
MEMBER_DIRS = ["olpc-cjson", "tough", "tough-kms", "tough-ssm", "tuftool"]
EXPECTED = {
    "A": ["olpc_cjson-rlib", "olpc_cjson-executable", "tough-rlib", "tough_kms-rlib",
          "tough_ssm-rlib", "tuftool-executable"],
    "B": ["olpc_cjson-rlib", "tough-rlib"],
}
RUSTFLAGS = "--cap-lints=warn -Zalways-encode-mir"


def _env():
    e = dict(os.environ)
    sysroot = subprocess.check_output(["rustc", "+nightly", "--print", "sysroot"], text=True).strip()
    e["LD_LIBRARY_PATH"] = sysroot + "/lib" + (":" + e["LD_LIBRARY_PATH"] if e.get("LD_LIBRARY_PATH") else "")
    e["CARGO_NET_OFFLINE"] = "true"
    e["RUSTFLAGS"] = RUSTFLAGS
    e.pop("RUSTC_WRAPPER", None)
    e.pop("CARGO_BUILD_RUSTFLAGS", None)
    e.pop("CARGO_ENCODED_RUSTFLAGS", None)
    e["RUST_BACKTRACE"] = "0"
    return e


def source_files(repo=None):
    repo = repo or REPO
    out = []
    for top in MEMBER_DIRS:
        for root, dirs, files in os.walk(os.path.join(repo, top)):
            dirs[:] = sorted(d for d in dirs if d not in ("target", "tests", ".git"))
            for f in sorted(files):
                if f.endswith(".rs") or f == "Cargo.toml":
                    out.append(os.path.join(root, f))
    for f in ("Cargo.toml", "Cargo.lock"):
        p = os.path.join(repo, f)
        if os.path.exists(p):
            out.append(p)
    return out


def tree_hash(repo=None):
    repo = repo or REPO
    h = hashlib.sha256()
    for p in source_files(repo):
        h.update(os.path.relpath(p, repo).encode())
        h.update(b"\0")
        with open(p, "rb") as f:
            h.update(hashlib.sha256(f.read()).digest())
    for tool in (DRIVER, ATTRSCAN):
        if os.path.exists(tool):
            st = os.stat(tool)
            h.update(("%s:%d:%d" % (tool, st.st_size, int(st.st_mtime))).encode())
    return h.hexdigest()[:20]


def build_tools(quiet=True):
    env = _env()
    env.pop("RUSTFLAGS", None)
    for d in ("driver", "attrscan"):
        p = os.path.join(VERIF, d)
        if not os.path.isdir(p):
            continue
        r = subprocess.run(["cargo", "build", "--offline"], cwd=p, env=env,
                           stdout=subprocess.PIPE, stderr=subprocess.STDOUT, text=True)
        if r.returncode != 0:
            sys.stderr.write(r.stdout)
            raise SystemExit("building %s failed" % d)


def _touch_members(target):
    """delete the member crates' fingerprints so that cargo cannot skip the wrapper"""
    fp = os.path.join(target, "debug", ".fingerprint")
    if not os.path.isdir(fp):
        return
    prefixes = ("olpc-cjson-", "tough-", "tough-kms-", "tough-ssm-", "tuftool-")
    for d in os.listdir(fp):
        if d.startswith(prefixes):
            shutil.rmtree(os.path.join(fp, d), ignore_errors=True)


def gen_facts(config="A", repo=None, out=None, target=None):
    """run the driver over `repo`; returns (ok, log)"""
    repo = repo or REPO
    env = _env()
    target = target or os.path.join(WORK, "target")
    os.makedirs(out, exist_ok=True)
    env["RUSTC_WORKSPACE_WRAPPER"] = DRIVER
    env["TOUGHLINT_OUT"] = out
    env["CARGO_TARGET_DIR"] = target
    _touch_members(target)
    if config == "A":
        cmd = ["cargo", "+nightly", "check", "--offline", "--workspace"]
    else:
        cmd = ["cargo", "+nightly", "check", "--offline", "-p", "tough", "--no-default-features"]
    r = subprocess.run(cmd, cwd=repo, env=env, stdout=subprocess.PIPE, stderr=subprocess.STDOUT, text=True)
    log = r.stdout
    ok = r.returncode == 0
    if ok:
        for name in EXPECTED[config]:
            if not os.path.exists(os.path.join(out, name + ".json")):
                ok = False
                log += "\nmissing fact file %s.json (cargo skipped the wrapper?)" % name
    return ok, log


def gen_attrs(repo=None, out=None):
    repo = repo or REPO
    if not os.path.isdir(os.path.join(VERIF, "attrscan")):
        return True, ""
    if not os.path.exists(ATTRSCAN):
        return False, "attrscan not built"
    files = [p for p in source_files(repo) if p.endswith(".rs")]
    r = subprocess.run([ATTRSCAN, repo] + files, stdout=subprocess.PIPE, stderr=subprocess.PIPE, text=True)
    if r.returncode != 0:
        return False, r.stderr
    with open(os.path.join(out, "attrs.json"), "w") as f:
        f.write(r.stdout)
    return True, ""


def facts_dir(config="A", repo=None, force=False):
    """directory with up-to-date facts for repo's working tree (generated if absent)"""
    repo = repo or REPO
    h = tree_hash(repo)
    base = os.path.join(WORK, "facts")
    os.makedirs(base, exist_ok=True)
    d = os.path.join(base, "%s-%s" % (config, h))
    lock = open(os.path.join(base, ".lock"), "w")
    fcntl.flock(lock, fcntl.LOCK_EX)
    try:
        if os.path.exists(os.path.join(d, "OK")) and not force:
            return d
        if os.path.isdir(d):
            shutil.rmtree(d)
        tmp = d + ".tmp"
        if os.path.isdir(tmp):
            shutil.rmtree(tmp)
        t0 = time.time()
        # configuration B must not share the target dir's member artefacts with A's feature set,
        # cargo handles that (different fingerprints); same target dir keeps deps warm.
        ok, log = gen_facts(config, repo, tmp)
        if not ok:
            os.makedirs(d + ".failed", exist_ok=True)
            with open(os.path.join(d + ".failed", "log.txt"), "w") as f:
                f.write(log)
            shutil.rmtree(tmp, ignore_errors=True)
            raise BuildError(log)
        ok2, log2 = gen_attrs(repo, tmp)
        if not ok2:
            shutil.rmtree(tmp, ignore_errors=True)
            raise BuildError("attrscan: " + log2)
        with open(os.path.join(tmp, "OK"), "w") as f:
            f.write("%.1f\n" % (time.time() - t0))
        os.rename(tmp, d)
        _gc(base, keep=d)
        return d
    finally:
        fcntl.flock(lock, fcntl.LOCK_UN)
        lock.close()


class BuildError(Exception):
    pass


def _gc(base, keep, max_keep=6):
    ds = [os.path.join(base, x) for x in os.listdir(base) if not x.startswith(".")]
    ds = [x for x in ds if os.path.isdir(x) and x != keep]
    ds.sort(key=lambda p: os.stat(p).st_mtime)
    while len(ds) > max_keep:
        shutil.rmtree(ds.pop(0), ignore_errors=True)


if __name__ == "__main__":
    if len(sys.argv) > 1 and sys.argv[1] == "setup":
        build_tools()
        print(facts_dir("A"))
    else:
        print(facts_dir(sys.argv[1] if len(sys.argv) > 1 else "A"))
