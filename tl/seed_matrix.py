"""python3 -m tl.seed_matrix: run each confirmed seeded change (seeded/<ID>-<V>/patch.diff) against the check of its
property on a scratch copy of the current /repo; write seeded/MATRIX.md and record the result in meta.json."""
import glob, json, os, re, sys
from . import build, mutate


def main():
    rows = []
    for d in sorted(glob.glob(os.path.join(build.VERIF, "seeded", "C*-*"))):
        name = os.path.basename(d)
        prop = name.split("-")[0]
        patch = os.path.join(d, "patch.diff")
        st, out = mutate.run_on_patch(prop, patch)
        rules = sorted(set("%s:%s:%s" % (r, f.split("::")[-1], i) for r, f, i in re.findall(r"rule=(\S+) function=(.+?) instance=(\S+)", out)))
        mp = os.path.join(d, "meta.json")
        meta = json.load(open(mp))
        meta["checked_against"] = {"property_check": prop, "status": st, "reported_by": rules,
                                   "how": "python3 -m tl.mutate %s seeded/%s/patch.diff (scratch copy of /repo, facts regenerated)" % (prop, name)}
        json.dump(meta, open(mp, "w"), indent=1)
        rows.append((name, prop, st, rules, meta.get("summary", "")[:110].replace("\n", " ")))
        print(name, st, rules[:3])
        sys.stdout.flush()
    with open(os.path.join(build.VERIF, "seeded", "MATRIX.md"), "w") as f:
        f.write("# Seeded changes vs. checks\n\nEach row: a change produced independently by a sub-agent (given only the property text), "
                "confirmed by me in a scratch worktree (demo passes on HEAD, fails with the patch, the 146-test suite passes with the patch), "
                "then run against the property's static check on a scratch copy of /repo.\n\n| seed | status | reported by (rule:function:instance) | what the change does |\n|---|---|---|---|\n")
        for name, prop, st, rules, summ in rows:
            f.write("| %s | %s | %s | %s |\n" % (name, st, "<br>".join(rules[:4]), summ.replace("|", "/")))
    bad = [r for r in rows if r[2] != "flagged"]
    print("%d seeds, %d not flagged: %s" % (len(rows), len(bad), [r[0] for r in bad]))


if __name__ == "__main__":
    main()
