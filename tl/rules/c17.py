"""C17 — updating a repository preserves everything that was not deliberately changed."""
from .common import *

ED = "tough::editor::RepositoryEditor::"
TE = "tough::editor::targets::TargetsEditor::"
REGENERATED = {"spec_version", "version", "expires", "meta"}
MUTATORS = ("core::iter::traits::collect::Extend::extend", "std::collections::hash::map::HashMap::insert",
            "alloc::vec::Vec::push", "alloc::vec::Vec::extend_from_slice", "std::collections::hash::map::HashMap::extend")


def mutation_sources(ctx, local):
    """origins of everything moved into `local` through &mut mutator calls (extend/insert/push)"""
    out = set()
    for bb, t in ctx.calls(*MUTATORS):
        recv = t.args[0]
        if recv.place is None:
            continue
        tgt = set()
        for o in ctx.origins.of_operand(recv):
            tgt.add(o)
        # receiver is `&mut local`
        defs = ctx.origins.defs.get(recv.place.local, [])
        hit = False
        for (kind, dbb, idx, obj) in defs:
            if kind == "stmt" and obj.rv.k == "ref" and obj.rv.place.local == local and not obj.rv.place.proj:
                hit = True
        if hit:
            for a in t.args[1:]:
                out |= ctx.origins.of_operand(a)
    return out


def field_sources(ctx, agg_stmt, field):
    """origins of one field of a struct aggregate, including what is later moved into a local
    collection that ends up in that field"""
    names = agg_stmt.rv.j["fields"]
    op = agg_stmt.rv.ops[names.index(field)]
    og = set(ctx.origins.of_operand(op))
    if op.place is not None:
        # follow to the local(s) that hold the value
        locs = {op.place.local}
        for _ in range(4):
            for l in list(locs):
                for (kind, bb, idx, obj) in ctx.origins.defs.get(l, []):
                    if kind == "stmt" and obj.rv.k == "use" and obj.rv.ops[0].place is not None and not obj.rv.ops[0].place.proj:
                        locs.add(obj.rv.ops[0].place.local)
        for l in locs:
            og |= mutation_sources(ctx, l)
    return og


def carrier_blocks(ctx, src_field):
    """blocks that copy the loaded content self.<src_field> onward: clone()/to_owned() of it, a
    mutator call (extend/insert/push) whose SOURCE is it, or a direct move/copy of the field"""
    out = set()
    from_src = lambda og: bool(og) and all(self_field(o, src_field) for o in og)
    for b in ctx.body.blocks:
        if b.cleanup:
            continue
        for s in b.stmts:
            if s.k == "assign" and s.rv.k == "use" and s.rv.ops[0].place is not None:
                pl = s.rv.ops[0].place
                if 1 <= pl.local <= ctx.body.argc and pl.fields()[:1] == (src_field,):
                    out.add(b.idx)
        t = b.term
        if t is None or t.k != "call":
            continue
        if t.is_call_to("core::clone::Clone::clone", "alloc::borrow::ToOwned::to_owned") and t.args:
            if from_src(ctx.origins.of_operand(t.args[0])):
                out.add(b.idx)
        elif t.is_call_to(*MUTATORS) and len(t.args) > 1:
            if all(from_src(ctx.origins.of_operand(a)) for a in t.args[1:]):
                out.add(b.idx)
    return out


def unconditional(chk, ctx, rule, label, src_field):
    """the loaded content is carried over whenever it is present: the blocks that copy it are
    control dependent only on tests of self.<src_field> itself (error exits aside)"""
    bad = []
    blocks = carrier_blocks(ctx, src_field)
    okb = set(ctx.ok_return_blocks())
    can_ok = ctx.cfg.backward_reach(okb)
    for cb in blocks:
        for sbb, edges in ctx.cfg.control_switches(cb):
            if sbb in blocks:
                continue
            # a guard whose other edges only lead to an error return does not drop content
            others = [e for e in ctx.cfg.succ[sbb] if e not in edges]
            if all(e[1] not in can_ok for e in others):
                continue
            sw = ctx.body.blocks[sbb].term
            deps = deep_origins(ctx, sw.discr, 5)
            foreign = [o for o in deps if o.kind in ("param", "upvar") and o.fields and o.fields[0] != src_field]
            if foreign:
                bad.append((sbb, sorted(set(o.fields[0] for o in foreign))))
    chk.require(bool(blocks) and not bad, rule, ctx.fn, label,
                "carrying over self.%s depends on %s: existing content is dropped on some update paths"
                % (src_field, sorted(set(x for _, xs in bad for x in xs))),
                ctx.site(bad[0][0]) if bad else None)


APPEND_ONLY = ("core::iter::traits::collect::Extend::extend", "alloc::vec::Vec::push", "core::option::Option::as_mut",
               "core::ops::deref::DerefMut::deref_mut", "core::option::Option::as_ref", "alloc::vec::Vec::extend_from_slice",
               "alloc::vec::Vec::append", "alloc::vec::Vec::reserve")


def order_preserving(chk, ctx, src_field):
    """the carried-over list (delegations.roles: order = delegation priority) is only appended to"""
    bad = []
    carried = lambda og: bool(og) and any(self_field(o, src_field) for o in og)
    for b in ctx.body.blocks:
        if b.cleanup:
            continue
        for s in b.stmts:
            if s.k == "assign" and s.place.proj and "roles" in s.place.fields() and carried(ctx.origins.of_local(s.place.local)):
                bad.append((site_of(s.sp), "the role list is replaced"))
        t = b.term
        if t is None or t.k != "call" or not t.args:
            continue
        a0 = t.args[0]
        if a0.place is None:
            continue
        # a call that receives `&mut <carried>.roles` (or the carried local mutably)
        is_mut = False
        for (kind, dbb, idx, obj) in ctx.origins.defs.get(a0.place.local, []):
            if kind == "stmt" and obj.rv.k == "ref" and obj.rv.j.get("mut"):
                is_mut = True
        if not is_mut:
            continue
        if carried(ctx.origins.of_operand(a0)) and not t.is_call_to(*APPEND_ONLY):
            bad.append((site_of(t.sp), "mutated through %s" % (t.resolved or t.callee)))
    chk.require(not bad, "R1", ctx.fn, "order-preserved:" + src_field,
                "the carried-over %s are not only appended to (%s): the order of delegated roles is their priority, a "
                "no-op update would change which role a target resolves to" % (src_field, bad[:3]),
                bad[0][0] if bad else None)


def self_field(o, name):
    return o.kind in ("param", "upvar") and o.key[1] == "self" and o.fields[:1] == (name,)


def run(chk, prog):
    chk.rules_live = ["R1", "R2", "R3"]
    chk.explanation = (
        "Carry-over rules (value-origin analysis over the MIR of the editor): for every schema struct "
        "the editor rebuilds, each field is either regenerated by design (spec_version, version, "
        "expires, meta) or must originate, in the value that is built, from the editor field that the "
        "loader filled from the existing repository: Targets.{targets, delegations, _extra} via "
        "from_targets -> build_targets, Snapshot._extra via snapshot() -> build_snapshot, "
        "Timestamp._extra via timestamp() -> build_timestamp, and from_repo feeds all three; "
        "delegated roles are collected recursively and re-emitted through from_signed, which keeps the "
        "Signed<_> value (content and signatures) untouched and serialises exactly it.")
    chk.not_decided = ["member-by-member equality of the written files"]
    chk.assumptions = ["HashMap::extend / clone copy all entries"]
    n = 0
    # --- TargetsEditor::from_targets
    ctx = ctx_of(prog, TE + "from_targets")
    if ctx is None:
        chk.anchor_missing("R1", TE + "from_targets")
    else:
        chk.analysed_body(ctx.body)
        for b in ctx.body.blocks:
            for s in b.stmts:
                if s.k == "assign" and s.rv.k == "agg" and s.rv.j.get("adt") == "tough::editor::targets::TargetsEditor":
                    for ef, tf in (("existing_targets", "targets"), ("delegations", "delegations"), ("_extra", "_extra")):
                        og = field_sources(ctx, s, ef)
                        n += 1
                        chk.require(any(o.kind == "param" and o.key[1] == "targets" and o.fields[:1] == (tf,) for o in og),
                                    "R1", ctx.fn, "loads:" + tf, "TargetsEditor.%s is not filled from the existing Targets.%s: %s"
                                    % (ef, tf, sorted(map(repr, og))), site_of(s.sp))
    # --- build_targets
    ctx = ctx_of(prog, TE + "build_targets")
    if ctx is None:
        chk.anchor_missing("R1", TE + "build_targets")
    else:
        chk.analysed_body(ctx.body)
        adt = prog.adts.get("tough::schema::Targets")
        for b in ctx.body.blocks:
            for s in b.stmts:
                if s.k == "assign" and s.rv.k == "agg" and s.rv.j.get("adt") == "tough::schema::Targets":
                    for fld in s.rv.j["fields"]:
                        if fld in REGENERATED:
                            continue
                        src = {"targets": "existing_targets", "delegations": "delegations", "_extra": "_extra"}.get(fld)
                        og = field_sources(ctx, s, fld)
                        n += 1
                        chk.require(src is not None and any(self_field(o, src) for o in og), "R1", ctx.fn, "keeps:" + fld,
                                    "Targets.%s built by the editor does not originate from the loaded %s: %s — existing "
                                    "content would be dropped when a repository is updated" % (fld, src, sorted(map(repr, og))[:4]), site_of(s.sp))
                    for fld, src in (("targets", "existing_targets"), ("delegations", "delegations"), ("_extra", "_extra")):
                        unconditional(chk, ctx, "R1", "always-keeps:" + fld, src)
                    order_preserving(chk, ctx, "delegations")
                    if adt is not None:
                        allf = [f["n"] for f in adt["variants"][0]["fields"]]
                        chk.require(set(allf) == set(s.rv.j["fields"]), "R1", ctx.fn, "all-fields-considered",
                                    "Targets has fields %s, the editor sets %s" % (allf, s.rv.j["fields"]))
    # --- snapshot / timestamp extras
    for role, adt_path in (("snapshot", "tough::schema::Snapshot"), ("timestamp", "tough::schema::Timestamp")):
        sctx = ctx_of(prog, ED + role)
        if sctx is None:
            chk.anchor_missing("R1", ED + role)
        else:
            chk.analysed_body(sctx.body)
            ok = False
            for b in sctx.body.blocks:
                for s in b.stmts:
                    if s.k == "assign" and (role + "_extra") in s.place.fields():
                        og = sctx.origins.of_operand(s.rv.ops[0]) if s.rv.ops else set()
                        if any(o.kind == "param" and o.key[1] == role and o.fields[:1] == ("_extra",) for o in og):
                            ok = True
            n += 1
            chk.require(ok, "R1", sctx.fn, "loads:_extra", "RepositoryEditor::%s does not keep the loaded %s's unknown members" % (role, role))
        bctx = ctx_of(prog, ED + "build_" + role)
        if bctx is None:
            chk.anchor_missing("R1", ED + "build_" + role)
            continue
        chk.analysed_body(bctx.body)
        # every Ok(..) the builder can return carries them (evaluated per return site with the
        # definitions that reach it: an early `return Ok(snapshot)` above the assignment does not)
        rets = []
        for b in bctx.body.blocks:
            if b.cleanup:
                continue
            for s in b.stmts:
                if s.k == "assign" and s.place.local == 0 and s.rv.k == "agg" and s.rv.j.get("variant") == "Ok":
                    rets.append((b.idx, s))
        n += 1
        bad_ret = None
        og = set()
        for rb, s in rets:
            og = bctx.origins.of_operand(s.rv.ops[0], fields=(("n", "_extra"),), at=rb)
            if not any(self_field(o, role + "_extra") for o in og):
                bad_ret = (rb, s, og)
                break
        chk.require(bool(rets) and bad_ret is None, "R1", bctx.fn, "keeps:_extra",
                    "the %s built by the editor does not carry the unknown top-level members loaded from the existing "
                    "%s.json on every path (a returned value's _extra originates from %s)"
                    % (role, role, sorted(map(repr, bad_ret[2] if bad_ret else og))[:4]),
                    site_of(bad_ret[1].sp) if bad_ret else None)
        unconditional(chk, bctx, "R1", "always-keeps:_extra", role + "_extra")
        adt = prog.adts.get(adt_path)
        if adt is not None:
            others = [f["n"] for f in adt["variants"][0]["fields"] if f["n"] not in REGENERATED and f["n"] != "_extra"]
            chk.require(not others, "R1", bctx.fn, "all-fields-considered",
                        "%s has fields %s that are neither regenerated nor carried over" % (adt_path, others))
    chk.floor("R1", n, 9, "carry-over obligations")
    # --- from_repo feeds all three
    fctx = async_body(prog, ED + "from_repo")
    if fctx is None:
        chk.anchor_missing("R1", ED + "from_repo")
    else:
        chk.analysed_body(fctx.body)
        for fn, fld in ((ED + "targets", ("targets",)), (ED + "snapshot", ("snapshot", "signed")), (ED + "timestamp", ("timestamp", "signed"))):
            calls = fctx.calls(fn)
            ok = False
            for bb, t in calls:
                og = fctx.origins.of_operand(t.args[1])
                ok = ok or any(o.kind in ("upvar", "param") and o.key[1] == "repo" and o.fields == fld for o in og)
            chk.require(ok, "R1", fctx.fn, "feeds:" + fn.split("::")[-1],
                        "from_repo does not pass repo.%s to the editor" % ".".join(fld))
    tctx = ctx_of(prog, ED + "targets")
    if tctx is not None:
        chk.analysed_body(tctx.body)
        ok1 = ok2 = False
        for b in tctx.body.blocks:
            for s in b.stmts:
                if s.k == "assign" and "signed_targets" in s.place.fields():
                    ok1 = any(o.kind == "param" and o.key[1] == "targets" and not o.fields for o in tctx.origins.of_operand(s.rv.ops[0]))
        for bb, t in tctx.calls(TE + "from_targets"):
            ok2 = any(o.kind == "param" and o.key[1] == "targets" and o.fields == ("signed",) for o in tctx.origins.of_operand(t.args[1]))
        chk.require(ok1 and ok2, "R1", tctx.fn, "keeps-signed-targets-and-editor",
                    "RepositoryEditor::targets does not keep the loaded Signed<Targets> and build its editor from targets.signed")
        # every editor it installs is built by from_targets(_, targets.signed, _) (the constructor R1 "loads:*"
        # proves complete) — not by some other route that might keep fields of a previous (blank) editor
        bad_src = []
        for b in tctx.body.blocks:
            if b.cleanup:
                continue
            for s in b.stmts:
                if s.k == "assign" and s.place.fields()[-1:] == ("targets_editor",) and s.rv.ops:
                    for o in deep_origins(tctx, s.rv.ops[0], 3, stop=lambda y: y.kind == "call"):
                        if o.kind == "call" and not is_call(o, TE + "from_targets"):
                            bad_src.append(o)
                        if o.kind == "call" and is_call(o, TE + "from_targets"):
                            a1 = tctx.origins.of_operand(o.extra.args[1])
                            if not (a1 and all(x.kind == "param" and x.key[1] == "targets" and x.fields == ("signed",) for x in a1)):
                                bad_src.append(o)
        chk.require(not bad_src, "R1", tctx.fn, "editor-only-from-loaded-targets",
                    "RepositoryEditor::targets installs an editor obtained from %s: only TargetsEditor::from_targets(.., "
                    "targets.signed, ..) is known to carry over targets, delegations and unknown members"
                    % sorted(set(map(repr, bad_src)))[:3])
    r2_delegated(chk, prog)
    # R3: 'nothing is dropped merely by passing through an update' includes the write step: every role file
    # of the re-signed repository is written or the write fails (C10-R12, re-evaluated here)
    from .c06 import SubCheck
    from . import c10
    c10.r12_writes_all(SubCheck(chk, "R3"), prog)


def r2_delegated(chk, prog):
    ctx = async_body(prog, ED + "sign")
    if ctx is None:
        chk.anchor_missing("R2", ED + "sign")
        return
    chk.analysed_body(ctx.body)
    SDT = "tough::schema::Targets::signed_delegated_targets"
    FS = "tough::editor::signed::SignedRole::from_signed"
    sdt = ctx.calls(SDT)
    chk.require(len(sdt) >= 1, "R2", ctx.fn, "collects-all-delegated-roles", "sign() does not collect the delegated roles with signed_delegated_targets()")
    pushed = False
    for bb, t in ctx.calls("alloc::vec::Vec::push"):
        deep = deep_origins(ctx, t.args[1], 6)
        if any(is_call(o, FS) for o in deep) and any(is_call(o, SDT) for o in deep):
            pushed = True
            # .. and every one of them: nothing but the end of the list (and a failing from_signed) keeps
            # a collected role out
            # (a test on the collected list itself — `if delegated_targets.is_empty()` — drops nothing)
            the_list = lambda o: is_call(o, SDT, "alloc::vec::Vec::is_empty", "alloc::vec::Vec::len",
                                         "core::option::Option::context", "snafu::OptionExt::context",
                                         "core::clone::Clone::clone") or \
                (o.kind in ("upvar", "param") and o.fields[:1] == ("signed_targets",)) or o.kind == "const"
            fc = foreign_controls(ctx, bb, the_list)
            chk.require(not fc, "R2", ctx.fn, "re-emits-every-delegated-role",
                        "a collected delegated role is re-emitted only under a condition (on %s): a role can be "
                        "dropped from the written repository" % sorted(set(repr(o) for _, os_ in fc for o in os_))[:3],
                        ctx.site(fc[0][0]) if fc else None)
    # iterator spelling: signed_delegated_targets().into_iter().map(SignedRole::from_signed).collect()
    for bb, t in ctx.calls("core::iter::traits::iterator::Iterator::map"):
        if not any(is_call(o, SDT) for o in deep_origins(ctx, t.args[0], 6)):
            continue
        f_ = t.args[1]
        direct = f_.is_const and f_.fn is not None and path_match(strip_generics(f_.fn), FS)
        via_closure = False
        for o in ctx.origins.of_operand(f_):
            if o.kind == "agg" and o.extra is not None and hasattr(o.extra, "rv") and o.extra.rv.j.get("ak") == "closure":
                cb = prog.body(o.extra.rv.j.get("def"))
                if cb is not None:
                    cctx = ctx_of(prog, cb.path)
                    via_closure = any(all(x.kind == "param" for x in cctx.origins.of_operand(ct.args[0]))
                                      for _, ct in cctx.calls(FS))
        collected = any(any(o.kind == "call" and o.key[0] == bb for o in deep_origins(ctx, ct.args[0], 4))
                        for _, ct in ctx.calls("core::iter::traits::iterator::Iterator::collect"))
        if (direct or via_closure) and collected:
            pushed = True
    chk.require(pushed, "R2", ctx.fn, "re-emits-each-delegated-role",
                "the delegated roles collected are not each re-emitted through SignedRole::from_signed")
    # recursion of signed_delegated_targets
    sctx = ctx_of(prog, SDT)
    if sctx is None:
        chk.anchor_missing("R2", SDT)
    else:
        chk.analysed_body(sctx.body)
        rec = sctx.calls(SDT)
        ext = [t for bb, t in sctx.calls("core::iter::traits::collect::Extend::extend") if any(is_call(o, SDT) for o in sctx.origins.of_operand(t.args[1]))]
        psh = sctx.calls("alloc::vec::Vec::push")
        chk.require(bool(rec) and bool(ext) and bool(psh), "R2", sctx.fn, "recursive",
                    "signed_delegated_targets does not include each role and, recursively, the roles below it")
        # each listed role with loaded metadata, and everything below it, whatever its other attributes:
        # the collecting steps depend only on `delegations` / `role.targets` being present
        present = lambda o: o.kind in ("param", "upvar") and o.fields[-1:] in (("delegations",), ("targets",), ("roles",))
        for bb2, t2 in list(ext) and [(b_, t_) for b_, t_ in sctx.calls("core::iter::traits::collect::Extend::extend")] + psh:
            fc = foreign_controls(sctx, bb2, present)
            chk.require(not fc, "R2", sctx.fn, "collects-unconditionally:" + ("extend" if t2.is_call_to("core::iter::traits::collect::Extend::extend") else "push"),
                        "a delegated role (or the roles below it) is collected only under a condition on %s: roles are "
                        "silently dropped when the repository is re-signed"
                        % sorted(set(repr(o) for _, os_ in fc for o in os_))[:3], sctx.site(fc[0][0]) if fc else None)
    # from_signed keeps the Signed<_> value and serialises exactly it
    fctx = ctx_of(prog, FS)
    if fctx is None:
        chk.anchor_missing("R2", FS)
        return
    chk.analysed_body(fctx.body)
    for b in fctx.body.blocks:
        for s in b.stmts:
            if s.k == "assign" and s.rv.k == "agg" and s.rv.j.get("adt") == "tough::editor::signed::SignedRole":
                names = s.rv.j["fields"]
                sg = fctx.origins.of_operand(s.rv.ops[names.index("signed")])
                bf = deep_origins(fctx, s.rv.ops[names.index("buffer")], 4)
                ok = bool(sg) and all(o.kind == "param" and o.key[1] == "role" and not o.fields for o in sg)
                ser = [o for o in bf if is_call(o, "serde_json::ser::to_vec_pretty", "serde_json::ser::to_vec")]
                ok2 = bool(ser) and all(all(x.kind == "param" and x.key[1] == "role" and not x.fields
                                            for x in fctx.origins.of_operand(o.extra.args[0])) for o in ser)
                chk.require(ok and ok2, "R2", fctx.fn, "keeps-signed-value",
                            "from_signed alters the Signed<_> value or serialises something else than it (signatures of "
                            "untouched delegated roles would no longer match)", site_of(s.sp))
