"""Helpers shared by the per-property rule modules."""
from ..cfg import CFG
from ..flow import Tracker, Origins, Origin
from ..facts import path_match, strip_generics
from ..report import site_of

L = "tough::"
# (a list: discover_parse_wrappers() appends crate-local one-line wrappers such as
#  `fn parse_metadata<T>(data: &[u8]) -> Result<Signed<T>> { serde_json::from_slice(data).context(..) }`)
SER_PARSE = ["serde_json::de::from_slice", "serde_json::de::from_str", "serde_json::de::from_reader"]
_SER_PARSE_BASE = tuple(SER_PARSE)
CMP_CALLS = {
    "core::cmp::PartialOrd::le": "le", "core::cmp::PartialOrd::lt": "lt",
    "core::cmp::PartialOrd::ge": "ge", "core::cmp::PartialOrd::gt": "gt",
    "core::cmp::PartialEq::eq": "eq", "core::cmp::PartialEq::ne": "ne",
}
CMP_BIN = {"Le": "le", "Lt": "lt", "Ge": "ge", "Gt": "gt", "Eq": "eq", "Ne": "ne"}


class Ctx:
    """one MIR body with its CFG and flow analyses (built lazily, cached on the Program)"""

    def __init__(self, prog, body):
        self.prog = prog
        self.body = body
        self._cfg = self._tr = self._og = None

    @property
    def cfg(self):
        if self._cfg is None:
            self._cfg = CFG(self.body)
        return self._cfg

    @property
    def tracker(self):
        if self._tr is None:
            self._tr = Tracker(self.body, self.cfg)
        return self._tr

    @property
    def origins(self):
        if self._og is None:
            self._og = Origins(self.body)
            self._og.set_cfg(self.cfg)
        return self._og

    @property
    def fn(self):
        return short_fn(self.body.path)

    def calls(self, *pats, arg_const=None, wrappers=False):
        """call sites of the named functions; with wrappers=True also calls of crate-local helpers
        that succeed only if their own call of a named function (on their parameters) succeeded — the
        helper call stands for the inner call, its arguments mapped back to the caller's operands"""
        out = []
        for bb, t in self.body.calls():
            if not t.is_call_to(*pats):
                if wrappers:
                    vt = self._through_wrapper(t, pats)
                    if vt is not None:
                        out.append((bb, vt))
                continue
            if arg_const:
                ok = True
                for i, val in arg_const.items():
                    if i >= len(t.args):
                        ok = False
                        break
                    s = self.const_str_of(t.args[i])
                    if s != val:
                        ok = False
                        break
                if not ok:
                    continue
            out.append((bb, t))
        return out

    def _through_wrapper(self, t, pats):
        callee = t.resolved or t.callee
        crate = self.body.path.split("::")[0].lstrip("<")
        if not callee or not callee.startswith(crate + "::") or "{closure" in callee:
            return None
        for (target, argmap) in wrapper_summary(self.prog, callee, pats):
            args = []
            for m in argmap:
                if m is None or m[0] >= len(t.args):
                    args = None
                    break
                args.append(VOperand(t.args[m[0]], m[1]))
            if args is not None:
                return VTerm(t, target, args)
        return None

    def const_str_of(self, op):
        """string literal an operand originates from (through refs/moves), else None"""
        if op.is_const:
            return op.const_str
        vals = set()
        for o in self.origins.of_operand(op):
            if o.kind == "const" and o.extra is not None and o.extra.const_str is not None:
                vals.add(o.extra.const_str)
            else:
                return None
        return vals.pop() if len(vals) == 1 else None

    def track_call(self, bb):
        t = self.body.blocks[bb].term
        return self.tracker.track(t.dest.local)

    def site(self, bb):
        t = self.body.blocks[bb].term
        return site_of(t.sp)

    def ok_return_blocks(self):
        """blocks that assign `_0 = Ok(..)`"""
        out = []
        for b in self.body.blocks:
            if b.cleanup:
                continue
            for s in b.stmts:
                if s.k == "assign" and s.place.local == 0 and not s.place.proj and s.rv.k == "agg" \
                        and s.rv.j.get("ak") == "adt" and s.rv.j.get("variant") == "Ok":
                    out.append(b.idx)
        return out

    def tail_result_calls(self):
        """call blocks whose Result is the function's own result (`..; last_step(..).await` as tail
        expression): the function succeeds there exactly when that call does"""
        out = []
        for bb, t in self.body.calls():
            if t.dest is None or t.is_call_to("core::ops::try_trait::FromResidual::from_residual"):
                continue
            tr = self.tracker.track(t.dest.local)
            if 0 in tr.payloads.get(0, ()) and not tr.pos_edges(0) and not tr.neg_edges(0):
                out.append(bb)
        return out

    def comparisons(self):
        """all ordering/equality tests: (bb, op, lhs operand, rhs operand, TrackResult of bool)"""
        out = []
        for b in self.body.blocks:
            if b.cleanup:
                continue
            for i, s in enumerate(b.stmts):
                if s.k == "assign" and s.rv.k == "bin" and s.rv.j["op"] in CMP_BIN and not s.place.proj:
                    tr = self.tracker.track(s.place.local, is_bool=True)
                    out.append((b.idx, CMP_BIN[s.rv.j["op"]], s.rv.ops[0], s.rv.ops[1], tr, s.sp))
            t = b.term
            if t is not None and t.k == "call":
                for name, op in CMP_CALLS.items():
                    if t.is_call_to(name) and len(t.args) == 2:
                        tr = self.tracker.track(t.dest.local, is_bool=True)
                        out.append((b.idx, op, t.args[0], t.args[1], tr, t.sp))
                        break
        out.extend(self._virtual_comparisons())
        return out

    def _virtual_comparisons(self):
        """comparisons performed by a crate-local helper on its parameters, seen at the call site:
        `ensure_not_older(old.version, new.version)?` counts as `old.version <= new.version` whose
        'holds' edge is the Ok edge of the call (one level, Result-returning helpers)"""
        out = []
        crate = self.body.path.split("::")[0].lstrip("<")
        for bb, t in self.body.calls():
            callee = t.resolved or t.callee
            if not callee or not callee.startswith(crate + "::") or "{closure" in callee:
                continue
            summ = guard_summary(self.prog, callee)
            if not summ:
                continue
            tr = self.tracker.track(t.dest.local)
            if not tr.pos_edges(0):
                continue
            for (op, i, fi, j, fj) in summ:
                if i >= len(t.args) or j >= len(t.args):
                    continue
                a = VOperand(t.args[i], fi)
                b = VOperand(t.args[j], fj)
                out.append((bb, op, a, b, tr, t.sp))
        return out

    def describe_path(self, path):
        if not path:
            return None
        pts = []
        last = None
        for bb in path:
            sp = self.body.blocks[bb].term.sp if self.body.blocks[bb].term else None
            if sp and sp["l"] != last:
                pts.append("L%d" % sp["l"])
                last = sp["l"]
        return "%s: bb%s via lines %s" % (self.fn, "->bb".join(map(str, path[:1] + path[-1:])), " ".join(pts[:40]))


def short_fn(path):
    p = path
    if p.endswith("::{closure#0}"):
        p = p[: -len("::{closure#0}")]
    return p


_CTX = {}


def ctx_of(prog, path):
    key = (id(prog), path)
    if key not in _CTX:
        b = prog.body(path)
        if b is None:
            return None
        _CTX[key] = Ctx(prog, b)
    return _CTX[key]


def async_body(prog, fn_path):
    """the coroutine body of an `async fn` (or the fn body itself when not async)"""
    c = ctx_of(prog, fn_path + "::{closure#0}")
    if c is not None and c.body.coroutine and "Async" in c.body.coroutine:
        return c
    return ctx_of(prog, fn_path)


def is_call(o, *pats):
    """origin o is the result of a call to one of pats (any spelling of the callee)"""
    if o.kind != "call":
        return False
    if o.extra is not None and hasattr(o.extra, "is_call_to"):
        return o.extra.is_call_to(*pats)
    return any(path_match(o.key[1], p) for p in pats)


def root_calls(origins, *pats):
    """origins that are results of calls matching pats"""
    return [o for o in origins if is_call(o, *pats)]


def only_calls(origins, *pats):
    return bool(origins) and all(is_call(o, *pats) for o in origins)


def normalise_le(op, a_is_small, tr):
    """edges on which `small <= big` is known to hold, given a comparison `op(x, y)`;
    a_is_small: x is the operand that must be the smaller one.
    Returns (edges, strictness) where strictness 'le' or 'lt' (lt = equal is rejected)."""
    if a_is_small:
        table = {"le": ("pos", "le"), "lt": ("pos", "lt"), "gt": ("neg", "le"), "ge": ("neg", "lt")}
    else:
        table = {"ge": ("pos", "le"), "gt": ("pos", "lt"), "lt": ("neg", "le"), "le": ("neg", "lt")}
    if op not in table:
        return None, None
    pol, strict = table[op]
    edges = tr.pos_edges(0) if pol == "pos" else tr.neg_edges(0)
    return edges, strict


def deep_origins(ctx, operand, depth=5, stop=None):
    """origins of an operand, expanding call results into the origins of their arguments,
    arithmetic into its operands and discriminant reads into the place read (an
    over-approximation of data dependence inside one body)"""
    out = set()
    seen = set()
    work = [(o, 0) for o in ctx.origins.of_operand(operand)]
    while work:
        o, d = work.pop()
        if o.ident() in seen:
            continue
        seen.add(o.ident())
        out.add(o)
        if d >= depth:
            continue
        if stop is not None and stop(o):
            continue
        if o.kind == "call" and o.extra is not None:
            for a in o.extra.args:
                for x in ctx.origins.of_operand(a):
                    work.append((x, d + 1))
        elif o.kind == "bin" and o.extra is not None:
            for a in o.extra.rv.ops:
                for x in ctx.origins.of_operand(a):
                    work.append((x, d + 1))
        elif o.kind == "discr" and o.extra is not None:
            for x in ctx.origins.of_place(o.extra.rv.place):
                work.append((x, d + 1))
        elif o.kind == "agg" and o.extra is not None and hasattr(o.extra, "rv"):
            for a in o.extra.rv.ops:
                for x in ctx.origins.of_operand(a):
                    work.append((x, d + 1))
    return out


def base(o):
    """the origin without the field path"""
    return Origin(o.kind, o.key, (), o.extra)


# ---- file-system effects (canonical callee names; matched on `::`-boundaries) -------------------
FS_WRITE_IN_PLACE = (
    "tokio::fs::write::write", "std::fs::write", "tokio::fs::file::File::create", "std::fs::File::create",
    "std::fs::File::create_new", "tokio::fs::file::File::create_new",
    "tokio::fs::open_options::OpenOptions::open", "std::fs::OpenOptions::open",
    "tokio::fs::copy::copy", "std::fs::copy",
)
FS_LINK = ("tokio::fs::symlink::symlink", "std::os::unix::fs::symlink", "tokio::fs::hard_link::hard_link",
           "std::fs::hard_link")
FS_RENAME = ("tokio::fs::rename::rename", "std::fs::rename")
FS_REMOVE = ("tokio::fs::remove_file::remove_file", "std::fs::remove_file", "tokio::fs::remove_dir_all::remove_dir_all",
             "std::fs::remove_dir_all", "tokio::fs::remove_dir::remove_dir", "std::fs::remove_dir")
FS_MKDIR = ("tokio::fs::create_dir_all::create_dir_all", "std::fs::create_dir_all", "tokio::fs::create_dir::create_dir",
            "std::fs::create_dir")
FS_TEMP_NEW = ("tempfile::file::NamedTempFile::new_in", "tempfile::file::NamedTempFile::new",
               "tempfile::Builder::tempfile_in", "tempfile::Builder::tempfile", "tempfile::tempfile_in")
FS_PERSIST = ("tempfile::file::NamedTempFile::persist", "tempfile::file::NamedTempFile::persist_noclobber",
              "tempfile::file::TempPath::persist", "tempfile::file::TempPath::persist_noclobber")
FS_ALL_MUTATING = FS_WRITE_IN_PLACE + FS_LINK + FS_RENAME + FS_REMOVE + FS_MKDIR + FS_TEMP_NEW + FS_PERSIST


def body_family(prog, root_path):
    """a body together with all closures / coroutines nested in it"""
    out = []
    for p, b in prog.bodies.items():
        if p == root_path or p.startswith(root_path + "::{closure"):
            out.append(b)
    return out


def fs_effects(prog, root_path, table=FS_ALL_MUTATING):
    """(body, bb, term, matched name) of every mutating file-system call in a function family"""
    out = []
    for b in body_family(prog, root_path):
        for bb, t in b.calls():
            for n in table:
                if t.is_call_to(n):
                    out.append((b, bb, t, n))
                    break
    return out


def upvar_source(prog, closure_ctx, upvar_idx):
    """origins (in the parent body) of captured variable `upvar_idx` of a closure"""
    path = closure_ctx.body.path
    parent_path = closure_ctx.body.parent
    pctx = ctx_of(prog, parent_path)
    if pctx is None:
        return None, set()
    for b in pctx.body.blocks:
        if b.cleanup:
            continue
        for s in b.stmts:
            if s.k == "assign" and s.rv.k == "agg" and s.rv.j.get("ak") in ("closure", "coroutine") \
                    and s.rv.j.get("def") == path and upvar_idx < len(s.rv.ops):
                return pctx, pctx.origins.of_operand(s.rv.ops[upvar_idx])
    return pctx, set()


def root_fn(path):
    """the named function a (possibly nested) closure/coroutine body belongs to"""
    i = path.find("::{closure")
    return path if i < 0 else path[:i]


ASYNC_WRITE = ("tokio::io::util::async_write_ext::AsyncWriteExt::write_all", "tokio::io::util::async_write_ext::AsyncWriteExt::write",
               "tokio::io::util::async_write_ext::AsyncWriteExt::write_all_buf")
ASYNC_FLUSH = ("tokio::io::util::async_write_ext::AsyncWriteExt::flush", "tokio::fs::file::File::sync_all",
               "tokio::fs::file::File::sync_data", "tokio::io::util::async_write_ext::AsyncWriteExt::shutdown")


def async_write_flush_rule(chk, ctx, rule, sinks, what):
    """tokio::fs::File buffers a write in a background task: write_all(..).await returning Ok does not
    mean the bytes were written, the error of the LAST write only surfaces on flush()/sync (into_std()
    discards it). So between buffered async writes and the point where the file is published
    (persist / rename / Ok) a successful flush must lie on every path."""
    writes = [(bb, t) for bb, t in ctx.calls(*ASYNC_WRITE)
              if any("tokio::fs::file::File" in (ctx.body.locals[a.place.local]["ty"] if a.place is not None else "")
                     or any(is_call(o, "tokio::fs::file::File::from_std", "tokio::fs::file::File::create", "tokio::fs::file::File::open",
                                    "tokio::fs::open_options::OpenOptions::open") for o in deep_origins(ctx, a, 3))
                     for a in t.args[:1])]
    if not writes:
        return 0
    flush = []
    for bb, t in ctx.calls(*ASYNC_FLUSH):
        flush.extend(ctx.track_call(bb).pos_edges(0))
    p = ctx.cfg.witness_path(sinks, flush, starts=[bb for bb, _ in writes])
    chk.require(p is None, rule, ctx.fn, "buffered-write-flushed-before-" + what,
                "bytes are written through tokio::fs::File (buffered, the write runs in a background task) and the "
                "file is then published (%s) on a path without a successful flush()/sync_all(): a failing final "
                "write (disk full, I/O error) is swallowed and a truncated file is published as if complete" % what,
                ctx.site(writes[0][0]), path=ctx.describe_path(p))
    return len(writes)


def chain_fields(ctx, operand, depth=6):
    """named fields mentioned along the single-definition ref/use chain of an operand
    (`&role.signatures` -> {'signatures'})"""
    out = set()
    op_place = operand.place
    for _ in range(depth):
        if op_place is None:
            break
        out |= set(op_place.fields())
        ds = ctx.origins.defs.get(op_place.local, [])
        if len(ds) != 1 or ds[0][0] != "stmt":
            break
        rv = ds[0][3].rv
        if rv.k in ("ref", "copyderef"):
            op_place = rv.place
        elif rv.k in ("use", "cast") and rv.ops and rv.ops[0].place is not None:
            op_place = rv.ops[0].place
        else:
            break
    return out


def matches_guard(ctx, value_edges):
    """`matches!(x, A | B)` lowers to: value edges -> `flag = true`, otherwise -> `flag = false`, then a
    switch on `flag`.  Returns the true edges of that second switch, provided `flag = true` is assigned
    only behind the value edges (so the flag is exactly 'x matched')."""
    flags = {}
    for b in ctx.body.blocks:
        if b.cleanup:
            continue
        for s in b.stmts:
            if s.k == "assign" and not s.place.proj and s.rv.k == "use" and s.rv.ops[0].is_const \
                    and ctx.body.locals[s.place.local]["ty"] == "bool" and s.rv.ops[0].const_int in (0, 1):
                flags.setdefault(s.place.local, {0: [], 1: []})[s.rv.ops[0].const_int].append(b.idx)
    out = []
    for l, d in flags.items():
        if not d[1] or not d[0]:
            continue
        if ctx.cfg.witness_path(d[1], value_edges) is not None:
            continue
        if any(e[1] in d[1] or True for e in value_edges) and not all(
                any(blk in ctx.cfg.reach([e[1]]) for e in value_edges) for blk in d[1]):
            continue
        for b in ctx.body.blocks:
            t = b.term
            if b.cleanup or t is None or t.k != "switch" or t.discr.place is None:
                continue
            # the switch tests a copy/move of the flag
            og_local = t.discr.place.local
            src = {og_local}
            for (kind, bb, idx, obj) in ctx.origins.defs.get(og_local, []):
                if kind == "stmt" and obj.rv.k == "use" and obj.rv.ops[0].place is not None:
                    src.add(obj.rv.ops[0].place.local)
            if l in src:
                for v, dst in t.tv:
                    if v != 0:
                        out.append((b.idx, dst, v))
                if any(v == 0 for v, _ in t.tv):
                    out.append((b.idx, t.otherwise, "otherwise"))
    return out




class VOperand:
    """an argument of a helper call together with the field path the helper reads from it"""

    def __init__(self, operand, extra_fields):
        self.k = operand.k
        self.j = operand.j
        self.place = operand.place
        self.extra_fields = tuple(("n", f) for f in extra_fields)

    @property
    def is_const(self):
        return self.k == "const"

    @property
    def fn(self):
        return self.j.get("fn")

    @property
    def const_str(self):
        return None

    @property
    def const_int(self):
        b = self.j.get("bits")
        return int(b) if b is not None else None

    def __repr__(self):
        return "arg(%r)%s" % (self.place, "".join("." + f[1] for f in self.extra_fields))


_NEG = {"le": "gt", "lt": "ge", "ge": "lt", "gt": "le", "eq": "ne", "ne": "eq"}
_SUMM = {}
_SUMM_BUSY = set()


def guard_summary(prog, callee):
    """[(op, param index i, fields read from i, param index j, fields from j)] such that the helper
    returns Ok only if `p_i.fields op p_j.fields` holds"""
    key = (id(prog), callee)
    if key in _SUMM:
        return _SUMM[key]
    if key in _SUMM_BUSY:
        return []
    _SUMM_BUSY.add(key)
    out = []
    try:
        ctx = async_body(prog, callee) or ctx_of(prog, callee)
        if ctx is not None and len(ctx.body.blocks) < 400:
            okb = ctx.ok_return_blocks()
            if okb:
                real = []
                for b in ctx.body.blocks:
                    if b.cleanup:
                        continue
                    for s in b.stmts:
                        if s.k == "assign" and s.rv.k == "bin" and s.rv.j["op"] in CMP_BIN and not s.place.proj:
                            real.append((CMP_BIN[s.rv.j["op"]], s.rv.ops[0], s.rv.ops[1], ctx.tracker.track(s.place.local, is_bool=True)))
                    t = b.term
                    if t is not None and t.k == "call":
                        for name, op in CMP_CALLS.items():
                            if t.is_call_to(name) and len(t.args) == 2:
                                real.append((op, t.args[0], t.args[1], ctx.tracker.track(t.dest.local, is_bool=True)))
                                break
                is_async = ctx.body.kind == "Closure"
                for (op, a, b_, tr) in real:
                    oa, ob = ctx.origins.of_operand(a), ctx.origins.of_operand(b_)
                    if len(oa) != 1 or len(ob) != 1:
                        continue
                    xa, xb = next(iter(oa)), next(iter(ob))
                    want = "upvar" if is_async else "param"
                    if xa.kind != want or xb.kind != want:
                        continue
                    ia = xa.key[0] if is_async else xa.key[0] - 1
                    ib = xb.key[0] if is_async else xb.key[0] - 1
                    if is_async:
                        fb = prog.body(short_fn(ctx.body.path))
                        names = {n: p.local - 1 for n, p, a_ in fb.vdi if not p.proj and 1 <= p.local <= fb.argc} if fb else {}
                        if xa.key[1] not in names or xb.key[1] not in names:
                            continue
                        ia, ib = names[xa.key[1]], names[xb.key[1]]
                    pos, neg = tr.pos_edges(0), tr.neg_edges(0)
                    if pos and ctx.cfg.witness_path(okb, pos) is None:
                        out.append((op, ia, xa.fields, ib, xb.fields))
                    elif neg and ctx.cfg.witness_path(okb, neg) is None:
                        out.append((_NEG[op], ia, xa.fields, ib, xb.fields))
    finally:
        _SUMM_BUSY.discard(key)
    _SUMM[key] = out
    return out


class VTerm:
    """a helper call standing for the call the helper makes on its parameters"""

    def __init__(self, term, target, args):
        self._t = term
        self._target = target
        self.args = args
        self.via = term.resolved or term.callee

    def __getattr__(self, name):
        return getattr(self._t, name)

    def is_call_to(self, *pats):
        return any(path_match(self._target, p) for p in pats)

    @property
    def callee(self):
        return self._target

    @property
    def resolved(self):
        return self._target


_WSUMM = {}
_WBUSY = set()


def wrapper_summary(prog, callee, pats):
    """[(target path, [ (param index, fields) | None per target argument ])] such that `callee`
    returns Ok only on the Ok edge of its call of target (sync helpers, one level)"""
    key = (id(prog), callee, tuple(pats))
    if key in _WSUMM:
        return _WSUMM[key]
    if key in _WBUSY:
        return []
    _WBUSY.add(key)
    out = []
    try:
        ctx = ctx_of(prog, callee)
        if ctx is not None and len(ctx.body.blocks) < 200 and ctx.body.kind != "Closure":
            okb = ctx.ok_return_blocks()
            for bb, t in ctx.body.calls():
                if not t.is_call_to(*pats):
                    continue
                tr = ctx.tracker.track(t.dest.local)
                pos = tr.pos_edges(0)
                direct = 0 in tr.payloads.get(0, ()) or any(w == "return" for _, w in tr.escapes)
                if okb:
                    if not pos or ctx.cfg.witness_path(okb, pos) is not None:
                        continue
                elif not direct:
                    continue
                argmap = []
                for a in t.args:
                    og = ctx.origins.of_operand(a)
                    if len(og) == 1 and next(iter(og)).kind == "param":
                        o = next(iter(og))
                        argmap.append((o.key[0] - 1, o.fields))
                    else:
                        argmap.append(None)
                out.append((strip_generics(t.resolved or t.callee), argmap))
    finally:
        _WBUSY.discard(key)
    _WSUMM[key] = out
    return out


def closure_ctx(prog, ctx, operand):
    """Ctx of the closure body an operand holds (a closure literal), else None"""
    for o in ctx.origins.of_operand(operand):
        if o.kind == "agg" and o.extra is not None and hasattr(o.extra, "rv") and o.extra.rv.j.get("ak") == "closure":
            cb = prog.body(o.extra.rv.j.get("def"))
            if cb is not None:
                return ctx_of(prog, cb.path)
    return None


def variant_edges(ctx, local, variant):
    """CFG edges on which the enum held in `local` is known to be `variant` (switch on its discriminant)"""
    out = []
    for b in ctx.body.blocks:
        if b.cleanup:
            continue
        for s_ in b.stmts:
            if s_.k == "assign" and s_.rv.k == "discr" and s_.rv.place.local == local and not s_.rv.place.proj \
                    and not s_.place.proj:
                variants = s_.rv.j.get("vars", {})
                t = b.term
                if t is None or t.k != "switch" or t.discr.place is None or t.discr.place.local != s_.place.local:
                    continue
                listed = set()
                for v, d in t.tv:
                    nm = variants.get(str(v))
                    listed.add(nm)
                    if nm == variant:
                        out.append((b.idx, d, v))
                rest = [n for n in variants.values() if n not in listed]
                tt = ctx.body.blocks[t.otherwise].term
                if rest == [variant] and not (tt is not None and tt.k == "unreachable"):
                    out.append((b.idx, t.otherwise, "otherwise"))
    return out


def const_strs_of(ctx, operand):
    """the set of string literals an operand can hold, also when it is the loop variable of
    `for x in ["a", "b"]` (elements of an array literal reached through into_iter/next); None if
    anything else can flow in"""
    one = ctx.const_str_of(operand)
    if one is not None:
        return {one}
    ITER = ("core::iter::traits::iterator::Iterator::next", "core::iter::traits::collect::IntoIterator::into_iter",
            "core::slice::<impl [T]>::iter", "core::array::<impl core::iter::traits::collect::IntoIterator for [T; N]>::into_iter",
            "core::array::<impl core::iter::traits::collect::IntoIterator for &[T; N]>::into_iter")
    out = set()
    work = list(ctx.origins.of_operand(operand))
    seen = set()
    n = 0
    while work and n < 60:
        n += 1
        o = work.pop()
        if o.ident() in seen:
            continue
        seen.add(o.ident())
        if o.kind == "const" and o.extra is not None and o.extra.const_str is not None:
            out.add(o.extra.const_str)
        elif o.kind == "call" and o.extra is not None and o.extra.is_call_to(*ITER):
            for a in o.extra.args:
                work.extend(ctx.origins.of_operand(a))
        elif o.kind == "agg" and o.extra is not None and hasattr(o.extra, "rv") and o.extra.rv.j.get("ak") == "array":
            for a in o.extra.rv.ops:
                if a.is_const and a.const_str is not None:
                    out.add(a.const_str)
                else:
                    work.extend(ctx.origins.of_operand(a))
        else:
            return None
    return out or None


def control_switches_outside_loops(ctx, block):
    """like cfg.control_switches, but a controlling switch that is merely the exit test of a loop
    around the block (`for file in [..] { .. }`) is replaced by what controls that loop"""
    scc_of = {}
    for comp in ctx.cfg.sccs():
        if len(comp) > 1:
            for b in comp:
                scc_of[b] = comp
    out = []
    seen = set()
    work = [block]
    while work:
        b = work.pop()
        if b in seen:
            continue
        seen.add(b)
        for sbb, edges in ctx.cfg.control_switches(b):
            comp = scc_of.get(b)
            if comp is not None and sbb in comp:
                succs = [e[1] for e in ctx.cfg.edges() if e[0] == sbb]
                if any(x not in comp for x in succs):
                    # loop-exit test of the loop containing b
                    work.append(sbb)
                    continue
            if sbb == b:
                continue
            if sbb not in [x[0] for x in out]:
                out.append((sbb, edges))
    return out


def must_execute(ctx, starts, targets, bb):
    """None if every path from `starts` to `targets` executes block bb, else a witness path.  A block
    inside a `for` loop over a non-empty literal array counts as executed when every path goes through
    the loop header and every iteration (header -> body -> header) passes bb."""
    p = ctx.cfg.witness_path(targets, (), starts=starts, removed_blocks=[bb])
    if p is None:
        return None
    comp = next((c for c in ctx.cfg.sccs() if len(c) > 1 and bb in c), None)
    if comp is None:
        return p
    edges = ctx.cfg.edges()
    for h, _ in ctx.cfg.control_switches(bb):
        if h not in comp or not any(e[0] == h and e[1] not in comp for e in edges):
            continue
        p1 = ctx.cfg.witness_path(targets, (), starts=starts, removed_blocks=[h])
        body = [e[1] for e in edges if e[0] == h and e[1] in comp]
        p2 = ctx.cfg.witness_path([h], (), starts=body, removed_blocks=[bb]) if body else [0]
        if p1 is None and p2 is None:
            return None
    return p


def param_index_of_origin(prog, ctx, o):
    """position (0-based, among the function's declared parameters) of the parameter an origin stands
    for — directly (sync fn) or as the captured variable of an async fn's body; None otherwise"""
    if o.kind == "param":
        return o.key[0] - 1
    if o.kind == "upvar" and ctx.body.kind == "Closure":
        fb = prog.body(short_fn(ctx.body.path))
        if fb is None:
            return None
        for n, p, a_ in fb.vdi:
            if n == o.key[1] and not p.proj and 1 <= p.local <= fb.argc:
                return p.local - 1
    return None


def foreign_controls(ctx, bb, allowed, depth=6):
    """switches on which the execution of block bb (transitively) depends and that can drop it: not
    the iteration test of a loop, not a pure error guard (all other edges cannot reach an Ok return),
    and whose discriminant has a data origin not accepted by `allowed(origin)`.
    Returns [(switch block, offending origins)]."""
    ty0 = ctx.body.locals[0]["ty"] if ctx.body.locals else ""
    okb = set(ctx.ok_return_blocks())
    if "result::Result<" in ty0:
        okb |= set(ctx.tail_result_calls())
    rets = [b.idx for b in ctx.body.blocks if not b.cleanup and b.term is not None and b.term.k == "return"]
    can_ok = ctx.cfg.backward_reach(okb) if okb else ctx.cfg.backward_reach(set(rets))
    out = []
    seen = set()
    work = [bb]
    while work:
        cur = work.pop()
        if cur in seen:
            continue
        seen.add(cur)
        for sbb, edges in ctx.cfg.control_switches(cur):
            if sbb == cur:
                continue
            work.append(sbb)
            if is_iteration_test(ctx, sbb):
                continue
            others = [e for e in ctx.cfg.succ[sbb] if e not in edges]
            if okb and all(e[1] not in can_ok for e in others):
                continue
            sw = ctx.body.blocks[sbb].term
            deps = [o for o in deep_origins(ctx, sw.discr, depth) if o.kind in ("param", "upvar", "call", "const")]
            bad = [o for o in deps if not allowed(o)]
            if bad and sbb not in [x[0] for x in out]:
                out.append((sbb, bad))
    return out


def is_iteration_test(ctx, sbb):
    """the switch in block sbb tests the Option returned by an iterator's next() (the exit test of a
    `for`/`while let Some(..) = it.next()` loop) — as opposed to a conditional `break`"""
    blk = ctx.body.blocks[sbb]
    sw = blk.term
    if sw is None or sw.k != "switch" or sw.discr.place is None:
        return False
    dl = sw.discr.place.local
    for s_ in blk.stmts:
        if s_.k == "assign" and s_.rv.k == "discr" and s_.place.local == dl and not s_.place.proj:
            if s_.rv.j.get("adt") != "core::option::Option":
                return False
            work = [s_.rv.place.local]
            seen = set()
            while work:
                src = work.pop()
                if src in seen or len(seen) > 6:
                    continue
                seen.add(src)
                for (kind, dbb, idx, obj) in ctx.origins.defs.get(src, []):
                    if kind == "call" and ((obj.resolved or obj.callee or "").endswith("::next")
                                           or obj.is_call_to("core::iter::traits::iterator::Iterator::next")):
                        return True
                    if kind == "stmt" and obj.rv.k in ("use", "ref", "copyderef") :
                        pl = obj.rv.place if obj.rv.place is not None else (obj.rv.ops[0].place if obj.rv.ops else None)
                        if pl is not None:
                            work.append(pl.local)
    return False


# --- error discipline: no Result is silently dropped ------------------------------------------------
DROPPED_RESULT_OK = {
    # (function, callee) pairs read and found harmless; everything else is reported
    ("<tough::http::HttpTransportBuilder as core::default::Default>::default", "rustls::crypto::CryptoProvider::install_default"):
        "installing the process-wide crypto provider fails only if one is installed already",
    ("tuftool::build_targets", "tokio::task::blocking::spawn_blocking"):
        "detached directory walker whose closure always returns Ok(()); its entries travel through the channel",
}


def no_result_dropped(chk, prog, rule, prefixes):
    """every value of a type containing Result<..> that a function in scope computes is looked at
    (matched, `?`-ed, returned, passed on) — `let _ = step();`, `step().ok();`, a `join_all` whose
    Vec<Result> is dropped, are reported: an error of a storage / signing / network step that nobody
    sees turns 'the operation failed' into 'the operation reported success'"""
    n_fn = n_val = 0
    for b in prog.bodies.values():
        if "/.cargo/" in b.file or "/tests/" in b.file:
            continue
        if not any(b.path.startswith(p) or b.path.startswith("<" + p) or (" as " + p) in b.path for p in prefixes):
            continue
        ctx = ctx_of(prog, b.path)
        n_fn += 1
        uses = ctx.tracker.uses.by_local
        for l, info in enumerate(b.locals):
            if l == 0 or l <= b.argc:
                continue
            ty = info["ty"]
            if "result::Result<" not in ty or ty.startswith("&"):
                continue
            defs = [d_ for d_ in ctx.origins.defs.get(l, [])
                    if not (d_[0] == "call" and d_[3].is_call_to("core::ops::try_trait::FromResidual::from_residual"))]
            if not defs:
                continue
            n_val += 1
            if uses.get(l):
                continue
            k, bb, idx, obj = defs[0]
            callee = strip_generics(obj.resolved or obj.callee or "?") if k == "call" else "value"
            if (root_fn(b.path), callee) in DROPPED_RESULT_OK:
                continue
            if k == "call" and obj.is_call_to("std::io::Write::write_fmt", "std::io::Write::write_all", "std::io::Write::flush") and obj.args \
                    and obj.args[0].place is not None and any(
                        w in b.locals[obj.args[0].place.local]["ty"] for w in ("Stdout", "Stderr")):
                continue        # `let _ = writeln!(io::stdout(), ..)`: a message that could not be printed
            if k == "call" and callee.split("::")[-1] in ("remove_file", "remove_dir", "remove_dir_all", "send", "blocking_send",
                                                          "try_send", "set_permissions", "close") \
                    and not callee.startswith(("tough::", "tuftool::")):
                continue        # best-effort clean-up / notification: ignoring it cannot turn a failed step into success
            chk.fail(rule, short_fn(b.path), "result-dropped:%s" % callee.split("::")[-1],
                     "the result of %s (%s) is dropped without being looked at: a failure of that step goes unnoticed and "
                     "the enclosing operation reports success" % (callee, ty[:80]), site_of(obj.sp))
        # `.ok()` whose Option is then dropped
        for bb, t in b.calls():
            if t.is_call_to("core::result::Result::ok", "core::result::Result::err") and t.dest is not None \
                    and not t.dest.proj and t.dest.local != 0 and not uses.get(t.dest.local):
                chk.fail(rule, short_fn(b.path), "result-dropped:ok()",
                         "a Result is converted with .ok()/.err() and the Option is dropped: the error is discarded",
                         site_of(t.sp))
    chk.ok(rule, "scope " + ",".join(prefixes), "no-result-dropped", detail="functions=%d result-typed values=%d" % (n_fn, n_val))
    return n_fn


def discover_parse_wrappers(prog):
    """crate-local functions that return nothing but serde_json::from_slice/from_str(<their first
    parameter>) (possibly through .context(..)/map_err) count as parse sites themselves"""
    del SER_PARSE[len(_SER_PARSE_BASE):]
    found = []
    for b in prog.bodies.values():
        if "/.cargo/" in b.file or "/tests/" in b.file or b.kind == "Closure" or "{closure" in b.path:
            continue
        if not b.path.startswith("tough::") or len(b.blocks) > 40 or b.argc < 1:
            continue
        if not any(t.is_call_to(*_SER_PARSE_BASE) for _, t in b.calls()):
            continue
        ctx = ctx_of(prog, b.path)
        ret = [o for o in ctx.origins.of_local(0) if not (o.kind == "call" and o.extra is not None and
               o.extra.is_call_to("core::ops::try_trait::FromResidual::from_residual"))]
        if not ret or not all(o.kind == "call" and o.extra is not None and o.extra.is_call_to(*_SER_PARSE_BASE) for o in ret):
            continue
        ok = True
        for o in ret:
            a0 = ctx.origins.of_operand(o.extra.args[0])
            ok = ok and bool(a0) and all(x.kind == "param" and x.key[0] == 1 and not x.fields for x in a0)
        if ok:
            found.append(strip_generics(b.path))
    for f in found:
        if f not in SER_PARSE:
            SER_PARSE.append(f)
    return found


def def_blocks_of(ctx, operand, depth=8):
    """blocks where the value an operand's local can hold is *computed*: its definitions followed
    backwards through plain whole-local moves/copies; a definition that is anything else (a call, an
    aggregate, a constant, a read of a field / parameter / captured variable) is a root"""
    out = set()
    if operand.is_const or operand.place is None:
        return out
    work = [(operand.place.local, 0)]
    seen = set()
    while work:
        l, d = work.pop()
        if l in seen or d > depth:
            continue
        seen.add(l)
        for (kind, bb, idx, obj) in ctx.origins.defs.get(l, []):
            if kind == "stmt" and obj.rv.k in ("use", "cast") and obj.rv.ops and not obj.rv.ops[0].is_const \
                    and obj.rv.ops[0].place is not None and not obj.rv.ops[0].place.proj \
                    and obj.rv.ops[0].place.local > ctx.body.argc and not obj.place.proj:
                work.append((obj.rv.ops[0].place.local, d + 1))
            else:
                out.add(bb)
    return out


def _param_names(body):
    out = {}
    for n, p, a in body.vdi:
        if not p.proj and 1 <= p.local <= body.argc:
            out[p.local - 1] = n
    return out


def no_crossed_parameters(chk, prog, rule, prefixes):
    """a function that has parameters `p` and `q` of the same type and forwards `p` to a callee's
    parameter that is called `q` (while its own `q` is at hand) has most likely crossed them —
    `editor.version(threshold)`, `delegate_role(.., version)`; the type checker cannot see it"""
    n_sites = 0
    for b in prog.bodies.values():
        if "/.cargo/" in b.file or "/tests/" in b.file:
            continue
        if not any(b.path.startswith(p) or b.path.startswith("<" + p) or (" as " + p) in b.path for p in prefixes):
            continue
        fb = prog.body(short_fn(b.path)) if b.kind == "Closure" else b
        if fb is None:
            continue
        cn = _param_names(fb)
        ctys = {nm: fb.locals[i + 1]["ty"] for i, nm in cn.items()}
        if len(ctys) < 2:
            continue
        ctx = ctx_of(prog, b.path)
        for bb, t in b.calls():
            callee = t.resolved or t.callee
            if not callee:
                continue
            cb = prog.body(strip_generics(callee)) or prog.body(callee)
            if cb is None or "/.cargo/" in cb.file:
                continue
            qn = _param_names(cb)
            for i, a in enumerate(t.args):
                if i not in qn or a.place is None:
                    continue
                og = ctx.origins.of_operand(a)
                if len(og) != 1:
                    continue
                o = next(iter(og))
                if o.kind not in ("param", "upvar") or o.fields:
                    continue
                n_sites += 1
                p_, q_ = o.key[1], qn[i]
                if p_ != q_ and q_ in ctys and p_ in ctys and ctys[q_] == ctys[p_]:
                    chk.fail(rule, short_fn(b.path), "crossed-parameters:%s-as-%s" % (p_, q_),
                             "%s passes its parameter `%s` as `%s` of %s although it has a parameter `%s` of the same type (%s): "
                             "the two are most likely swapped" % (short_fn(b.path), p_, q_, callee.split("::")[-1], q_, ctys[p_][:60]),
                             site_of(t.sp))
    chk.ok(rule, "scope " + ",".join(prefixes), "no-crossed-parameters", detail="forwarded parameters examined=%d" % n_sites)
