"""E1 — error discipline shared by the properties whose statement is about what an operation
*reports* (success must mean the steps happened): no Result computed in the functions the property
is anchored in is dropped without being looked at."""
from .common import no_result_dropped, no_crossed_parameters

SCOPES = {
    "C01": ["tough::load_", "tough::schema::verify::"],
    "C02": ["tough::load_root", "tough::Repository::load"],
    "C03": ["tough::load_", "tough::datastore::"],
    "C04": ["tough::load_", "tough::check_expired", "tough::datastore::", "tough::Repository::read_target"],
    "C05": ["tough::load_", "tough::fetch::", "tough::io::"],
    "C06": ["tough::Repository::read_target", "tough::Repository::fetch_target", "tough::fetch::", "tough::io::"],
    "C08": ["tough::Repository::save_target", "tough::target_name::"],
    "C09": ["tough::fetch::", "tough::io::", "tough::load_"],
    "C10": ["tough::editor::", "tough::sign::", "tough::key_source::", "tuftool::"],
    "C13": ["tough::schema::de::", "tough::schema::key::", "tough::schema::decoded::"],
    "C14": ["tough::load_root", "tough::load_timestamp", "tough::load_snapshot", "tough::load_targets"],
    "C15": ["tough::datastore::", "tough::load_", "tough::Repository::load", "tough::check_expired"],
    "C17": ["tough::editor::", "tuftool::update", "tuftool::common"],
    "C18": ["tough::http::"],
    "C19": ["tough::cache::", "tough::Repository::save_target"],
    "C20": ["tuftool::root::", "tuftool::write_file", "tuftool::load_file"],
}


def run(chk, prog, prop):
    pre = SCOPES.get(prop)
    if not pre:
        return
    if "E1" not in chk.rules_live:
        chk.rules_live.append("E1")
    n = no_result_dropped(chk, prog, "E1", pre)
    chk.floor("E1", n, 1, "functions in the error-discipline scope of %s" % prop)
    if "E2" not in chk.rules_live:
        chk.rules_live.append("E2")
    no_crossed_parameters(chk, prog, "E2", pre)
