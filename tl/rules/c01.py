"""C01 — only metadata signed by a threshold of distinct authorised keys is trusted."""
from .common import *
from .c03 import fetched_origin, CREATE, BYTES, stored_origin

ROOT_VERIFY = "tough::schema::verify::<impl tough::schema::Root>::verify_role"
DELEG_VERIFY = "tough::schema::verify::<impl tough::schema::Delegations>::verify_role"
KEY_VERIFY = "tough::schema::key::Key::verify"
CONTAINS = "core::slice::<impl [T]>::contains"
HGET = "std::collections::hash::map::HashMap::get"
SET_INSERT = ("std::collections::hash::set::HashSet::insert", "alloc::collections::btree::set::BTreeSet::insert")
SET_NEW = ("std::collections::hash::set::HashSet::new", "alloc::collections::btree::set::BTreeSet::new",
           "std::collections::hash::set::HashSet::with_capacity")
WITH_FMT = "serde_json::ser::Serializer::with_formatter"
CANON_NEW = "olpc_cjson::CanonicalFormatter::new"
SERIALIZE = "serde::ser::Serialize::serialize"


def sig_field(ctx, op, field):
    """operand is `<element of role.signatures>.<field>`"""
    og = ctx.origins.of_operand(op)
    return bool(og) and all(o.kind == "param" and o.key[1] == "role" and o.fields == ("signatures", field) for o in og)


def verifier(chk, prog, path, kind):
    ctx = ctx_of(prog, path)
    if ctx is None:
        chk.anchor_missing("R1", path)
        return False
    chk.analysed_body(ctx.body)
    f = ctx.fn
    cfg = ctx.cfg
    # --- the threshold comparison and the counter
    thr = []
    for (bb, op, a, b, tr, sp) in ctx.comparisons():
        oa, ob = ctx.origins.of_operand(a), ctx.origins.of_operand(b)
        a_thr = bool(oa) and all(o.fields[-1:] == ("threshold",) for o in oa)
        b_thr = bool(ob) and all(o.fields[-1:] == ("threshold",) for o in ob)
        if a_thr == b_thr:
            continue
        edges, strict = normalise_le(op, a_thr, tr)      # threshold <= counter
        thr.append((bb, op, (ob if a_thr else oa), (oa if a_thr else ob), edges or [], strict, sp))
    if not chk.require(len(thr) == 1, "R1", f, "threshold-test",
                       "unrecognised-idiom: expected exactly one comparison with `.threshold`, found %d" % len(thr),
                       site_of(ctx.body.span)):
        return False
    bb, op, counter_og, thr_og, T, strict, sp = thr[0]
    chk.require(strict == "le", "R1", f, "threshold-not-strict",
                "a document signed by exactly `threshold` keys is rejected (operator %s)" % op, site_of(sp))
    okb = ctx.ok_return_blocks()
    p = cfg.witness_path(okb, T)
    chk.require(bool(T) and p is None, "R1", f, "ok-needs-threshold",
                "Ok(()) is returned on a path that does not pass the edge valid >= threshold",
                site_of(sp), path=ctx.describe_path(p))
    # "a document that does meet its threshold is not rejected for signature reasons": the verifier's
    # failing exits are exactly: role entry missing, canonical serialisation failed, threshold not met
    errs = []
    for b in ctx.body.blocks:
        if b.cleanup:
            continue
        for s_ in b.stmts:
            if s_.k == "assign" and s_.rv.k == "agg" and s_.rv.j.get("ak") == "adt" and (
                    s_.rv.j["adt"].startswith("tough::schema::error::") and (s_.rv.j["adt"].endswith("Snafu") or s_.rv.j["adt"].endswith("::Error"))):
                errs.append(s_.rv.j["adt"].split("::")[-1] + ("::" + s_.rv.j["variant"] if s_.rv.j["adt"].endswith("::Error") else ""))
    want = {"root": {"MissingRoleSnafu", "JsonSerializationSnafu", "SignatureThresholdSnafu"},
            "delegations": {"Error::RoleNotFound", "JsonSerializationSnafu", "SignatureThresholdSnafu"}}[kind]
    chk.require(sorted(errs) == sorted(want), "R1", f, "no-other-rejection",
                "the verifier can fail for %s; expected exactly %s (an extra rejection would refuse documents that meet "
                "their threshold)" % (sorted(errs), sorted(want)), site_of(ctx.body.span))
    # the threshold belongs to the role entry selected for this role
    incs = [o for o in counter_og if o.kind == "bin" and o.key[2].startswith("Add")]
    SET_LEN = ("std::collections::hash::set::HashSet::len", "alloc::collections::btree::set::BTreeSet::len")
    lens = [o for o in counter_og if is_call(o, *SET_LEN)]
    if lens and not incs:
        return verifier_by_set_len(chk, ctx, kind, thr_og, lens, sp)
    others = [o for o in counter_og if not (o.kind == "bin" and o.key[2].startswith("Add")) and
              not (o.kind == "const" and o.extra is not None and o.extra.const_int == 0)]
    chk.require(bool(incs) and not others, "R1", f, "counter-shape",
                "unrecognised-idiom: the counter compared with the threshold is not `0` plus increments: %s"
                % sorted(map(repr, counter_og)), site_of(sp))
    # role entry selection
    sel = role_entry(chk, ctx, kind, thr_og)
    # --- guards
    loops = cfg.sccs()
    for inc in incs:
        ibb = inc.key[0]
        isite = site_of(inc.extra.sp)
        # increment by the constant 1
        ops = inc.extra.rv.ops
        one = any(o.is_const and o.const_int == 1 for o in ops)
        chk.require(one, "R1", f, "increment-by-one", "the counter is not incremented by the constant 1", isite)
        loop = next((c for c in loops if ibb in c), set())
        # (a) authorised for this role
        ga = [(b_, t) for b_, t in ctx.calls(CONTAINS)
              if sig_field(ctx, t.args[1], "keyid") and sel is not None and
              all(base(o) == sel and o.fields == ("keyids",) for o in ctx.origins.of_operand(t.args[0]))]
        # (b) present in the key table of the delegating document
        gb = [(b_, t) for b_, t in ctx.calls(HGET)
              if sig_field(ctx, t.args[1], "keyid") and
              all(o.kind == "param" and o.key[1] == "self" and o.fields == ("keys",) for o in ctx.origins.of_operand(t.args[0]))]
        gb_bbs = set(b_ for b_, _ in gb)
        # (c) signature verifies under that key over the canonical bytes
        gc = [(b_, t) for b_, t in ctx.calls(KEY_VERIFY)
              if sig_field(ctx, t.args[2], "sig") and
              all(o.kind == "call" and o.key[0] in gb_bbs for o in ctx.origins.of_operand(t.args[0]))]
        # (d) first valid signature of this key id
        gd = [(b_, t) for b_, t in ctx.calls(*SET_INSERT) if sig_field(ctx, t.args[1], "keyid")]
        names = {"a": ("authorised-keyid", ga, "the signature's key id is listed for this role (role_keys.keyids.contains)"),
                 "b": ("key-in-table", gb, "the key is present in the delegating document's key table (keys.get)"),
                 "c": ("signature-verifies", gc, "Key::verify(key, canonical bytes, signature) returned true"),
                 "d": ("distinct-keyid", gd, "this key id has not been counted before (set.insert returned true)")}
        pos = {}
        for g, (label, sites, what) in names.items():
            edges = []
            for b_, t in sites:
                edges.extend(ctx.track_call(b_).pos_edges(0))
            pos[g] = edges
            ok = bool(edges) and ibb not in cfg.reach((0,), set(edges))
            chk.require(ok, "R1", f, label, "the valid-signature counter is incremented on a path that does not "
                        "pass the edge on which %s" % what, isite,
                        path=ctx.describe_path(cfg.witness_path([ibb], set(edges))) if edges else None)
        # (d) ordering: a key id is recorded as seen only after its signature verified
        for b_, t in gd:
            for g in ("a", "b", "c"):
                ok = bool(pos[g]) and b_ not in cfg.reach((0,), set(pos[g]))
                chk.require(ok, "R1", f, "seen-only-after-" + names[g][0],
                            "a key id is recorded as seen before its signature passed the check '%s': an "
                            "invalid entry by key K would block a later valid signature by K" % names[g][0],
                            ctx.site(b_))
            so = ctx.origins.of_operand(t.args[0])
            ok = bool(so) and all(is_call(o, *SET_NEW) and o.key[0] not in loop for o in so)
            chk.require(ok, "R1", f, "seen-set-outlives-loop",
                        "the set of counted key ids is not created once before the signature loop", ctx.site(b_))
    # R2 canonical message
    r2_message(chk, ctx)
    return True


def verifier_by_set_len(chk, ctx, kind, thr_og, lens, sp):
    """equivalent spelling: the number compared with the threshold is `seen.len()` of the set of key ids
    whose signature verified — distinctness holds by construction, the guards must dominate the insert"""
    f = ctx.fn
    cfg = ctx.cfg
    sel = role_entry(chk, ctx, kind, thr_og)
    for o in lens:
        so = ctx.origins.of_operand(o.extra.args[0])
        chk.require(bool(so) and all(is_call(x, *SET_NEW) for x in so), "R1", f, "count-is-len-of-seen-set",
                    "the number compared with the threshold is the length of something else than the set of verified key ids", site_of(sp))
    gd = [(b_, t) for b_, t in ctx.calls(*SET_INSERT) if sig_field(ctx, t.args[1], "keyid")]
    chk.require(bool(gd), "R1", f, "distinct-keyid", "no insertion of the signature's key id into the counted set")
    ga = [(b_, t) for b_, t in ctx.calls(CONTAINS)
          if sig_field(ctx, t.args[1], "keyid") and sel is not None and
          all(base(o) == sel and o.fields == ("keyids",) for o in ctx.origins.of_operand(t.args[0]))]
    gb = [(b_, t) for b_, t in ctx.calls(HGET)
          if sig_field(ctx, t.args[1], "keyid") and
          all(o.kind == "param" and o.key[1] == "self" and o.fields == ("keys",) for o in ctx.origins.of_operand(t.args[0]))]
    gb_bbs = set(b_ for b_, _ in gb)
    gc = [(b_, t) for b_, t in ctx.calls(KEY_VERIFY)
          if sig_field(ctx, t.args[2], "sig") and
          all(o.kind == "call" and o.key[0] in gb_bbs for o in ctx.origins.of_operand(t.args[0]))]
    for label, sites, what in (("authorised-keyid", ga, "the key id is listed for this role"),
                               ("key-in-table", gb, "the key is present in the delegating document's key table"),
                               ("signature-verifies", gc, "Key::verify returned true")):
        edges = []
        for b_, t in sites:
            edges.extend(ctx.track_call(b_).pos_edges(0))
        for ib, it in gd:
            ok = bool(edges) and ib not in cfg.reach((0,), set(edges))
            chk.require(ok, "R1", f, label, "a key id is counted on a path that does not pass the edge on which %s" % what, ctx.site(ib))
    loops = cfg.sccs()
    for ib, it in gd:
        loop = next((c for c in loops if ib in c), set())
        so = ctx.origins.of_operand(it.args[0])
        chk.require(bool(so) and all(is_call(o, *SET_NEW) and o.key[0] not in loop for o in so), "R1", f, "seen-set-outlives-loop",
                    "the set of counted key ids is not created once before the signature loop", ctx.site(ib))
    r2_message(chk, ctx)
    return True


def role_entry(chk, ctx, kind, thr_og):
    """the origin (base) of the role entry whose threshold is compared; checks how it is selected"""
    f = ctx.fn
    bases = set(base(o) for o in thr_og)
    if len(bases) != 1:
        chk.fail("R1", f, "role-entry", "unrecognised-idiom: threshold has several origins")
        return None
    sel = bases.pop()
    if kind == "root":
        ok = is_call(sel, HGET)
        if ok:
            recv = ctx.origins.of_operand(sel.extra.args[0])
            key = ctx.origins.of_operand(sel.extra.args[1])
            ok = all(o.kind == "param" and o.key[1] == "self" and o.fields == ("roles",) for o in recv) and \
                all(o.kind == "const" and o.extra is not None and o.extra.j.get("def", "").endswith("Role::TYPE") for o in key)
        chk.require(ok, "R1", f, "role-entry", "the threshold/keyids are not those of self.roles[T::TYPE] "
                    "(the entry of the role type being verified): %r" % sel)
    else:
        ok = is_call(sel, "core::iter::traits::iterator::Iterator::find")
        if ok:
            recv = ctx.origins.of_operand(sel.extra.args[0])
            ok = bool(recv) and all(o.kind == "param" and o.key[1] == "self" and o.fields == ("roles",) for o in recv)
            # the closure compares the entry's name with the `name` argument
            clo = [o for o in ctx.origins.of_operand(sel.extra.args[1]) if o.kind == "agg"]
            cpath = clo[0].key[2].split(":", 1)[1] if clo else None
            cctx = ctx_of(ctx.prog, cpath) if cpath else None
            good = False
            if cctx is not None:
                for (bb, op, a, b, tr, sp) in cctx.comparisons():
                    if op != "eq":
                        continue
                    oa, ob = cctx.origins.of_operand(a), cctx.origins.of_operand(b)
                    n1 = any(o.kind == "param" and o.fields == ("name",) for o in oa | ob)
                    n2 = any(o.kind == "upvar" and o.key[1] == "name" for o in oa | ob)
                    ret = cctx.origins.of_local(0)
                    good = n1 and n2 and all(o.kind == "call" and o.key[0] == bb for o in ret)
            ok = ok and good
        chk.require(ok, "R1", f, "role-entry", "the threshold/keyids are not those of the entry of self.roles "
                    "whose name equals the `name` argument: %r" % sel)
    return sel


def r2_message(chk, ctx):
    f = ctx.fn
    for bb, t in ctx.calls(KEY_VERIFY):
        og = ctx.origins.of_operand(t.args[1])
        bufs = [o for o in og if is_call(o, "alloc::vec::Vec::new", "alloc::vec::Vec::with_capacity")]
        if not chk.require(bool(og) and len(bufs) == len(og), "R2", f, "message-buffer",
                           "the bytes given to Key::verify do not originate from a local buffer: %s"
                           % sorted(map(repr, og)), ctx.site(bb)):
            continue
        buf_bb = bufs[0].key[0]
        buf_local = bufs[0].extra.dest.local
        # mutable borrows of the buffer: exactly one, handed to Serializer::with_formatter(.., CanonicalFormatter::new())
        muts = []
        for b in ctx.body.blocks:
            if b.cleanup:
                continue
            for s in b.stmts:
                if s.k == "assign" and s.rv.k == "ref" and s.rv.j["mut"] and s.rv.place.local == buf_local:
                    muts.append((b.idx, s))
        wf = [(b_, t2) for b_, t2 in ctx.calls(WITH_FMT)
              if all(base(o) == base(bufs[0]) for o in ctx.origins.of_operand(t2.args[0]))
              and only_calls(ctx.origins.of_operand(t2.args[1]), CANON_NEW)]
        chk.require(len(muts) == 1 and len(wf) == 1, "R2", f, "only-canonical-writer",
                    "the verified bytes are written by something else than one "
                    "Serializer::with_formatter(&mut buf, CanonicalFormatter::new()) (mutable borrows: %d, "
                    "canonical serializers: %d)" % (len(muts), len(wf)), ctx.site(buf_bb))
        if not wf:
            continue
        ser_bb = wf[0][0]
        sers = []
        for b_, t2 in ctx.calls(SERIALIZE):
            s_og = ctx.origins.of_operand(t2.args[1])
            v_og = ctx.origins.of_operand(t2.args[0])
            if s_og and all(o.kind == "call" and o.key[0] == ser_bb for o in s_og):
                good = bool(v_og) and all(o.kind == "param" and o.key[1] == "role" and o.fields == ("signed",) for o in v_og)
                chk.require(good, "R2", f, "serialises-role-signed",
                            "the canonical bytes are not the serialisation of `role.signed` (the object the "
                            "caller goes on to use): %s" % sorted(map(repr, v_og)), ctx.site(b_))
                sers.extend(ctx.track_call(b_).pos_edges(0))
        p = ctx.cfg.witness_path([bb], sers)
        chk.require(bool(sers) and p is None, "R2", f, "verify-after-serialise",
                    "Key::verify can run on a path where serialising role.signed did not succeed",
                    ctx.site(bb), path=ctx.describe_path(p))


def r4_key_verify(chk, prog):
    ctx = ctx_of(prog, KEY_VERIFY)
    if ctx is None:
        chk.anchor_missing("R4", KEY_VERIFY)
        return
    chk.analysed_body(ctx.body)
    f = ctx.fn
    VS = "aws_lc_rs::signature::VerificationAlgorithm::verify_sig"
    ret = ctx.origins.of_local(0)
    ok = bool(ret) and all(is_call(o, "core::result::Result::is_ok") for o in ret)
    vs_bbs = set()
    if ok:
        for o in ret:
            src = ctx.origins.of_operand(o.extra.args[0])
            ok = ok and only_calls(src, VS)
            vs_bbs |= set(x.key[0] for x in src)
    chk.require(ok, "R4", f, "accepts-only-verify_sig-ok",
                "Key::verify's result is not exactly `alg.verify_sig(..).is_ok()`: %s" % sorted(map(repr, ret)))
    for bb in vs_bbs:
        t = ctx.body.blocks[bb].term
        m = ctx.origins.of_operand(t.args[2])
        s = ctx.origins.of_operand(t.args[3])
        chk.require(all(o.kind == "param" and o.key[1] == "msg" for o in m) and
                    all(o.kind == "param" and o.key[1] == "signature" for o in s) and bool(m) and bool(s),
                    "R4", f, "message-and-signature-args",
                    "verify_sig is not given the `msg` and `signature` arguments", ctx.site(bb))
    # per variant: which algorithm static is selected
    want = {"Rsa": "aws_lc_rs::signature::RSA_PSS_2048_8192_SHA256",
            "Ed25519": "aws_lc_rs::signature::ED25519",
            "Ecdsa": "aws_lc_rs::signature::ECDSA_P256_SHA256_ASN1",
            "EcdsaOld": "aws_lc_rs::signature::ECDSA_P256_SHA256_ASN1"}
    statics = {}
    for b in ctx.body.blocks:
        if b.cleanup:
            continue
        for s in b.stmts:
            if s.k == "assign" and s.rv.k == "use" and s.rv.ops[0].is_const and s.rv.ops[0].j.get("static"):
                statics.setdefault(b.idx, set()).add(s.rv.ops[0].j["static"])
    sw = None
    for b in ctx.body.blocks:
        for s in b.stmts:
            if s.k == "assign" and s.rv.k == "discr" and s.rv.j.get("adt") == "tough::schema::key::Key" \
                    and all(o.kind == "param" and o.key[1] == "self" and not o.fields for o in ctx.origins.of_place(s.rv.place)):
                sws = ctx.tracker._switch_on(s.place.local, b.idx)
                if sws:
                    sw = (sws[0], s.rv.j["vars"])
    if not chk.require(sw is not None, "R4", f, "variant-switch", "unrecognised-idiom: no match on the key variant"):
        return
    blk, vars_ = sw
    merge = vs_bbs
    seen = set()
    for v, d in blk.term.tv:
        name = vars_.get(str(v))
        seen.add(name)
        region = ctx.cfg.reach([d], removed_blocks=merge)
        sel = set()
        for bidx in region:
            sel |= statics.get(bidx, set())
        chk.require(sel == {want.get(name)}, "R4", f, "algorithm:" + str(name),
                    "a %s key is verified with %s, expected %s" % (name, sorted(sel), want.get(name)), site_of(blk.term.sp))
    chk.require(seen == set(want), "R4", f, "all-variants", "key variants handled: %s, expected %s" % (sorted(map(str, seen)), sorted(want)))


SIGN_TO_VERIFY = {
    # signing algorithm (tough::sign) -> the verification algorithm that accepts its output
    "aws_lc_rs::signature::ECDSA_P256_SHA256_ASN1_SIGNING": "aws_lc_rs::signature::ECDSA_P256_SHA256_ASN1",
    "aws_lc_rs::signature::ECDSA_P256_SHA256_FIXED_SIGNING": "aws_lc_rs::signature::ECDSA_P256_SHA256_FIXED",
    "aws_lc_rs::signature::ECDSA_P384_SHA384_ASN1_SIGNING": "aws_lc_rs::signature::ECDSA_P384_SHA384_ASN1",
    "aws_lc_rs::signature::ECDSA_P384_SHA384_FIXED_SIGNING": "aws_lc_rs::signature::ECDSA_P384_SHA384_FIXED",
    "aws_lc_rs::signature::RSA_PSS_SHA256": "aws_lc_rs::signature::RSA_PSS_2048_8192_SHA256",
    "aws_lc_rs::signature::RSA_PSS_SHA384": "aws_lc_rs::signature::RSA_PSS_2048_8192_SHA384",
    "aws_lc_rs::signature::RSA_PSS_SHA512": "aws_lc_rs::signature::RSA_PSS_2048_8192_SHA512",
    "aws_lc_rs::signature::RSA_PKCS1_SHA256": "aws_lc_rs::signature::RSA_PKCS1_2048_8192_SHA256",
}


def _algorithm_statics(body):
    out = set()
    for b in body.blocks:
        if b.cleanup:
            continue
        for s in b.stmts:
            if s.k == "assign" and s.rv.ops:
                for op in s.rv.ops:
                    if op.is_const and op.j.get("static", "").startswith("aws_lc_rs::signature::"):
                        out.add(op.j["static"])
        t = b.term
        if t is not None and t.k == "call":
            for op in t.args:
                if op.is_const and op.j.get("static", "").startswith("aws_lc_rs::signature::"):
                    out.add(op.j["static"])
    return out


def signer_verifier_agreement(chk, prog, rule):
    """writer/reader agreement: every signature algorithm tough::sign signs with has its counterpart
    among the algorithms Key::verify checks with (a signature made by the library's own signer must
    be one its verifier accepts)"""
    vb = prog.body(KEY_VERIFY)
    if vb is None:
        chk.anchor_missing(rule, KEY_VERIFY)
        return
    verifying = _algorithm_statics(vb)
    signing = {}
    for b in prog.bodies.values():
        if (b.path.startswith("tough::sign::") or b.path.startswith("<tough::sign::") or " as tough::sign::Sign>" in b.path) \
                and "/.cargo/" not in b.file and b.crate.startswith("tough"):
            for st in _algorithm_statics(b):
                signing.setdefault(st, b)
    chk.floor(rule + "-signing", len(signing), 2, "signing algorithms in tough::sign (ECDSA, RSA-PSS)")
    for st, b in sorted(signing.items()):
        chk.analysed_body(b)
        want = SIGN_TO_VERIFY.get(st)
        chk.require(want is not None and want in verifying, rule, short_fn(b.path), "signer-matches-verifier:" + st.split("::")[-1],
                    "tough::sign signs with %s but Key::verify checks with %s (needs %s): signatures made by this "
                    "library would not verify under it" % (st, sorted(verifying), want or "an algorithm not in the checker's table"))


def verify_edges(ctx, doc_pred, recv_pred=None, name_pred=None):
    """Ok edges of verify_role calls whose verified document satisfies doc_pred"""
    out = []
    sites = []
    for bb, t in ctx.calls(ROOT_VERIFY, DELEG_VERIFY, wrappers=True):
        og = ctx.origins.of_operand(t.args[1], at=bb)
        if not og or not all(doc_pred(o) for o in og):
            continue
        if recv_pred is not None:
            ro = ctx.origins.of_operand(t.args[0], at=bb)
            if not ro or not all(recv_pred(o) for o in ro):
                continue
        if name_pred is not None and len(t.args) > 2:
            no = ctx.origins.of_operand(t.args[2])
            if not no or not all(name_pred(o) for o in no):
                continue
        out.extend(ctx.track_call(bb).pos_edges(0))
        sites.append(bb)
    return out, sites


def r3_parse_sites(chk, prog):
    """every Signed<_> parsed in lib.rs from untrusted bytes passes verify_role before it escapes"""
    n_trusted = n_ref = 0
    nverify = 0
    fns = ["tough::load_root", "tough::load_timestamp", "tough::load_snapshot", "tough::load_targets",
           "tough::load_delegations"]
    # a loader may keep its rollback check (stored read + verification + comparison) in a helper
    from .c03 import rollback_site, LOADERS as _LOADERS
    for lf, lname in _LOADERS:
        lc = async_body(prog, lf)
        st = rollback_site(prog, lc, lname) if lc is not None else None
        if st is not None and st[1] is not None:
            hp = short_fn(st[0].body.path)
            if hp not in fns:
                fns.append(hp)
    for fn in fns:
        ctx = async_body(prog, fn)
        if ctx is None:
            chk.anchor_missing("R3", fn)
            continue
        chk.analysed_body(ctx.body)
        f = ctx.fn
        cfg = ctx.cfg
        nverify += len(ctx.calls(ROOT_VERIFY, DELEG_VERIFY, wrappers=True))
        parses = [(bb, t) for bb, t in ctx.calls(*SER_PARSE)
                  if any("Signed<" in g for g in t.generic_args) or "Signed<" in ctx.body.locals[t.dest.local]["ty"]]
        for pbb, pt in parses:
            me = Origin("call", (pbb, strip_generics(pt.resolved or pt.callee)), (), pt)
            is_me = lambda o, me=me: base(o) == me
            n_trusted += 1
            # escapes of this document
            sinks = []
            for b in ctx.body.blocks:
                if b.cleanup:
                    continue
                for s in b.stmts:
                    if s.k == "assign" and s.rv.k == "agg" and s.place.local == 0 and s.rv.j.get("variant") == "Ok":
                        og = ctx.origins.of_operand(s.rv.ops[0])
                        if any(is_me(o) and not o.fields for o in og):
                            # a variable that can hold several documents: the Ok return is the escape
                            # of the one it holds initially; later ones escape when they are adopted
                            if len(og) == 1 or _is_initial(ctx, s.rv.ops[0], me):
                                sinks.append(b.idx)
                    # `root = new_root`: a variable that held another document now holds this one
                    if s.k == "assign" and s.rv.k == "use" and not s.place.proj \
                            and s.rv.ops[0].place is not None and not s.rv.ops[0].place.proj \
                            and ctx.body.locals[s.place.local]["ty"].startswith("tough::schema::Signed<"):
                        src = ctx.origins.of_operand(s.rv.ops[0])
                        dst_all = ctx.origins.of_local(s.place.local)
                        if src == {me} and me in dst_all and len(dst_all) > 1 and \
                                not _dominates_other_defs(ctx, s.place.local, b.idx):
                            sinks.append(b.idx)
            for bb, t in ctx.calls(CREATE):
                if any(is_me(o) and not o.fields for o in ctx.origins.of_operand(t.args[2])):
                    sinks.append(bb)
            for bb, t in ctx.calls("std::collections::hash::map::HashMap::insert"):
                if len(t.args) > 2 and any(is_me(o) for o in deep_origins(ctx, t.args[2], 2)):
                    sinks.append(bb)
            if not chk.require(bool(sinks), "R3", f, "parse@%s:escapes" % _doc_label(ctx, pbb),
                               "unrecognised-idiom: cannot see where the parsed document goes", ctx.site(pbb)):
                continue
            self_recv = lambda o, me=me: base(o) == me and o.fields == ("signed",)
            if fn == "tough::load_root":
                roots = set()
                for bb2, t2 in parses:
                    roots.add(Origin("call", (bb2, strip_generics(t2.resolved or t2.callee)), (), t2))
                cur_recv = lambda o, roots=roots: base(o) in roots and o.fields == ("signed",)
                if pbb == min(b for b, _ in parses):
                    # shipped root: self-verification
                    e, s_ = verify_edges(ctx, is_me, self_recv)
                    need = [("self-signed", e)]
                else:
                    e1, s1 = verify_edges(ctx, is_me, self_recv)
                    e2 = []
                    for bb2, t2 in ctx.calls(ROOT_VERIFY, wrappers=True):
                        og = ctx.origins.of_operand(t2.args[1], at=bb2)
                        ro = ctx.origins.of_operand(t2.args[0], at=bb2)
                        if og and all(is_me(o) for o in og) and ro and all(cur_recv(o) for o in ro) \
                                and len(set(base(o) for o in ro)) > 1:
                            e2.extend(ctx.track_call(bb2).pos_edges(0))
                    need = [("signed-by-own-keys", e1), ("signed-by-current-root", e2)]
            elif fn == "tough::load_delegations":
                recv = lambda o: o.kind in ("upvar", "param") and o.key[1] == "delegation" and not o.fields
                namep = lambda o: o.fields[-1:] == ("name",) and o.fields[:1] == ("roles",)
                e, s_ = verify_edges(ctx, is_me, recv, namep)
                need = [("signed-for-delegating-role", e)]
            else:
                recv = lambda o: o.kind in ("upvar", "param") and o.key[1] == "root" and o.fields == ("signed",)
                e, s_ = verify_edges(ctx, is_me, recv)
                need = [("signed-by-final-root", e)]
            for label, edges in need:
                p = cfg.witness_path(sinks, edges)
                chk.require(bool(edges) and p is None, "R3", f, "parse@%s:%s" % (_doc_label(ctx, pbb), label),
                            "the document parsed here is returned/persisted/adopted on a path that does not pass "
                            "the Ok edge of verify_role (%s)" % label, ctx.site(pbb), path=ctx.describe_path(p))
        # stored (rollback-reference) documents: only used under their own verification
        from .c03 import stored_reads
        for bb, t, lvl in stored_reads(ctx):
            tr = ctx.track_call(bb)
            docs = tr.locals_at(lvl)
            if not docs:
                continue
            n_ref += 1
            is_st = lambda o: stored_origin(ctx, base(o))
            e, s_ = verify_edges(ctx, is_st)
            users = []
            for (cb, op, a, b_, trc, sp) in ctx.comparisons():
                if any(is_st(o) for o in ctx.origins.of_operand(a) | ctx.origins.of_operand(b_)):
                    users.append(cb)
            p = cfg.witness_path(users, e)
            chk.require(p is None and bool(e), "R3", f, "stored:%s" % (ctx.const_str_of(t.args[1]) or "?"),
                        "a stored document is used as rollback reference without having been verified under "
                        "the current root", ctx.site(bb), path=ctx.describe_path(p))
    chk.floor("R3", n_trusted, 6, "parse sites of fetched/shipped Signed<_> documents in lib.rs")
    chk.floor("R3-ref", n_ref, 3, "stored rollback-reference documents")
    chk.floor("R3-verify-sites", nverify, 10, "verify_role call sites in lib.rs")


def _def_blocks(ctx, local):
    return [bb for (kind, bb, idx, obj) in ctx.origins.defs.get(local, []) if kind in ("stmt", "call")]


def _dominates_other_defs(ctx, local, bb):
    return all(ctx.cfg.dominates(bb, d) for d in _def_blocks(ctx, local))


def _is_initial(ctx, operand, me):
    """`me` is the document the (multiply assigned) returned variable holds first"""
    if operand.place is None:
        return False
    l = operand.place.local
    for _ in range(8):      # through temporaries `_t = move root`
        ds = ctx.origins.defs.get(l, [])
        if len(ds) == 1 and ds[0][0] == "stmt" and ds[0][3].rv.k == "use" and ds[0][3].rv.ops[0].place is not None \
                and not ds[0][3].rv.ops[0].place.proj and len(ctx.origins.defs.get(ds[0][3].rv.ops[0].place.local, [])) >= 1 \
                and len(ctx.origins.of_local(l)) > 1:
            l = ds[0][3].rv.ops[0].place.local
        else:
            break
    for (kind, bb, idx, obj) in ctx.origins.defs.get(l, []):
        if kind == "stmt" and obj.rv.k == "use" and _dominates_other_defs(ctx, l, bb):
            return ctx.origins.of_operand(obj.rv.ops[0]) == {me}
    return False


def _doc_label(ctx, pbb):
    t = ctx.body.blocks[pbb].term
    ga = next((g for g in t.generic_args if "Signed<" in g), None) or ctx.body.locals[t.dest.local]["ty"]
    name = ga.split("Signed<")[-1].rstrip(">").split("::")[-1]
    idx = sorted(b for b, t2 in ctx.calls(*SER_PARSE)).index(pbb)
    return "%s#%d" % (name, idx)


def r5_construction(chk, prog):
    adt = prog.adts.get("tough::Repository")
    if adt is None:
        chk.anchor_missing("R5", "tough::Repository")
        return
    pubs = [f["n"] for v in adt["variants"] for f in v["fields"] if f["vis"] == "pub"]
    chk.require(not pubs, "R5", "tough::Repository", "no-public-field",
                "Repository has public fields %s: trusted documents could be replaced from outside" % pubs)
    sites = set()
    for b in prog.bodies.values():
        if "/.cargo/" in b.file:
            continue
        for blk in b.blocks:
            for s in blk.stmts:
                if s.k == "assign" and s.rv.k == "agg" and s.rv.j.get("adt") == "tough::Repository":
                    sites.add(short_fn(b.path))
    sites.discard("<tough::Repository as core::clone::Clone>::clone")
    chk.require(sites == {"tough::Repository::load"}, "R5", "tough::Repository", "constructed-only-in-load",
                "Repository is constructed in %s; only Repository::load (which verifies everything) may" % sorted(sites))


def run(chk, prog):
    chk.rules_live = ["R1", "R2", "R3", "R4", "R5", "R6"]
    chk.explanation = (
        "Dominance/must-pass rules over the MIR of both threshold verifiers: the valid-signature "
        "counter is incremented only under the true edges of (a) keyid listed for the selected role "
        "entry, (b) key present in the delegating document's key table, (c) Key::verify over the "
        "canonical bytes, (d) first insertion of the key id into a set created before the loop — "
        "and a key id is recorded only after (a)-(c); Ok only via counter >= threshold (not strict) "
        "of the same role entry; the verified bytes are written only by the canonical serialiser "
        "from role.signed; Key::verify accepts only verify_sig(..).is_ok() with the algorithm "
        "expected per key variant; every document parsed from shipped/fetched bytes in lib.rs "
        "escapes (return, persist, adopt as trusted root, attach) only through the Ok edge of "
        "verify_role with the right delegating document (and role name); stored reference "
        "documents are compared only under their own verification; Repository is constructed only "
        "by Repository::load.")
    chk.not_decided = ["cryptographic soundness of aws-lc-rs", "that canonical serialisation is injective (see C11/C12)"]
    chk.assumptions = ["aws_lc_rs verify_sig is sound", "HashSet::insert returns true iff the element was absent"]
    n = 0
    if verifier(chk, prog, ROOT_VERIFY, "root"):
        n += 1
    if verifier(chk, prog, DELEG_VERIFY, "delegations"):
        n += 1
    chk.floor("R1", n, 2, "threshold verifiers")
    # no other function in schema::verify compares against a threshold and returns Ok
    r4_key_verify(chk, prog)
    r3_parse_sites(chk, prog)
    r5_construction(chk, prog)
    r6_codecs_refuse_nothing_extra(chk, prog)


def r6_codecs_refuse_nothing_extra(chk, prog):
    """'a document that does meet its threshold is not rejected': the text decoders every signature, key
    id and digest passes through on parse (Decode for Hex / ..) fail exactly when the underlying codec
    fails — e.g. an empty `sig` placeholder of a signer who has not signed yet stays parseable"""
    n = 0
    for b in prog.bodies.values():
        if "/.cargo/" in b.file or " as tough::schema::decoded::Decode>::decode" not in b.path or "{closure" in b.path:
            continue
        ctx = ctx_of(prog, b.path)
        chk.analysed_body(b)
        n += 1
        # every Err the decoder returns derives from a failing call of a foreign codec (hex::decode,
        # pem::parse, ..): an `Err(..)` built from a literal error value is an extra rejection
        errs = []
        for blk in b.blocks:
            if blk.cleanup:
                continue
            for s_ in blk.stmts:
                if s_.k == "assign" and s_.rv.k == "agg" and s_.rv.j.get("variant") == "Err" and \
                        str(s_.rv.j.get("adt", "")).endswith("result::Result"):
                    src = deep_origins(ctx, s_.rv.ops[0], 4) if s_.rv.ops else set()
                    from_codec = any(o.kind == "call" and not o.key[1].startswith("tough::") and
                                     not o.key[1].startswith("snafu::") and not o.key[1].startswith("core::") for o in src)
                    if not from_codec:
                        errs.append(site_of(s_.sp))
        chk.require(not errs, "R6", short_fn(b.path), "refuses-only-what-the-codec-refuses",
                    "%s constructs an error of its own: input the underlying codec accepts (such as an empty string) makes "
                    "the whole document unparseable, although its signatures may meet the threshold" % short_fn(b.path),
                    errs[0] if errs else None)
    chk.floor("R6", n, 1, "Decode implementations")
