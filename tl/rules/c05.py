"""C05 — each role matches what the role above it pinned (no mix-and-match)."""
from .common import *
from .c03 import fetched_origin, CREATE
from ..templates import templates_of, template_of_origin, shape

HGET = "std::collections::hash::map::HashMap::get"
FETCH_SHA = "tough::fetch::fetch_sha256"
FETCH_MAX = "tough::fetch::fetch_max_size"
INTO_VEC = "tough::transport::IntoVec::into_vec"


def meta_lookups(ctx, doc_name, key=None):
    """HashMap::get calls on `<doc_name>.signed.meta`; returns list of (bb, term, key template)"""
    out = []
    for bb, t in ctx.calls(HGET):
        recv = ctx.origins.of_operand(t.args[0])
        if not recv:
            continue
        if not all(o.kind in ("upvar", "param") and o.key[1] == doc_name and o.fields[-2:] == ("signed", "meta")
                   for o in recv):
            continue
        tpls = templates_of(ctx, t.args[1])
        if key is not None:
            if not tpls or not all(shape(p) == '"%s"' % key for p, _ in tpls):
                continue
        out.append((bb, t, tpls))
    return out


def is_meta_origin(ctx, lookups, fields):
    bbs = set(bb for bb, _, _ in lookups)

    def pred(o):
        return o.kind == "call" and o.key[0] in bbs and path_match(o.key[1], HGET) and o.fields == fields
    return pred


def version_eq(chk, ctx, rule, fetched, lookups, sinks, label):
    f = ctx.fn
    is_meta_v = is_meta_origin(ctx, lookups, ("version",))
    is_doc_v = lambda o: base(o) in fetched and o.fields == ("signed", "version")
    T = []
    for (bb, op, a, b, tr, sp) in ctx.comparisons():
        if op not in ("eq", "ne"):
            continue
        oa, ob = ctx.origins.of_operand(a), ctx.origins.of_operand(b)
        if not oa or not ob:
            continue
        if (all(is_doc_v(o) for o in oa) and all(is_meta_v(o) for o in ob)) or \
                (all(is_meta_v(o) for o in oa) and all(is_doc_v(o) for o in ob)):
            T.extend(tr.pos_edges(0) if op == "eq" else tr.neg_edges(0))
    path = ctx.cfg.witness_path(sinks, T)
    chk.require(bool(T) and path is None, rule, f, label + ":version-equals-pinned",
                "the fetched document is accepted (returned/persisted/stored) on a path that does not pass "
                "the edge on which its version equals the version pinned by the parent document",
                site_of(ctx.body.span), detail="eq tests=%d sinks=%d" % (len(T), len(sinks)),
                path=ctx.describe_path(path))
    # a missing entry must be an error
    for bb, t, _ in lookups:
        neg = ctx.track_call(bb).neg_edges(0)
        r = ctx.cfg.reach_from_edges(neg) if neg else set()
        chk.require(bool(neg) and not (r & set(sinks)), rule, f, label + ":must-be-listed",
                    "a role that the parent document does not list can still be accepted", ctx.site(bb))


def option_switch_edges(ctx, pred):
    """(some_edges, none_edges) of every discriminant switch on an Option place whose origin satisfies pred"""
    some, none = [], []
    for b in ctx.body.blocks:
        if b.cleanup:
            continue
        for s in b.stmts:
            if s.k == "assign" and s.rv.k == "discr" and s.rv.j.get("adt") == "core::option::Option":
                og = ctx.origins.of_place(s.rv.place)
                if og and all(pred(o) for o in og):
                    for sw in ctx.tracker._switch_on(s.place.local, b.idx):
                        vars_ = s.rv.j["vars"]
                        listed = set()
                        for v, d in sw.term.tv:
                            nm = vars_.get(str(v))
                            listed.add(nm)
                            (some if nm == "Some" else none).append((sw.idx, d, v))
                        if ctx.body.blocks[sw.term.otherwise].term.k != "unreachable":
                            e = (sw.idx, sw.term.otherwise, "otherwise")
                            (none if "Some" in listed else some).append(e)
    return some, none


def parse_sites(ctx, fetched):
    return [o.key[0] for o in fetched if o.kind == "call"]


def digest_rule(chk, ctx, fetched, lookups, limit_name):
    f = ctx.fn
    hashes_pred = is_meta_origin(ctx, lookups, ("hashes",))
    some, none = option_switch_edges(ctx, hashes_pred)
    if not chk.require(bool(some), "R2", f, "hashes-test", "the pinned `hashes` entry is never examined: a file "
                       "whose digest differs from the pinned one would be accepted", site_of(ctx.body.span)):
        return
    sha_pred = is_meta_origin(ctx, lookups, ("hashes", "sha256"))
    len_pred = is_meta_origin(ctx, lookups, ("length",))
    good = []
    for bb, t in ctx.calls(FETCH_SHA):
        sha = ctx.origins.of_operand(t.args[4])
        size = ctx.origins.of_operand(t.args[2])
        sha_ok = bool(sha) and all(sha_pred(o) for o in sha)
        size_ok = bool(size) and any(len_pred(o) for o in size) and all(
            len_pred(o) or (o.kind in ("upvar", "param") and o.key[1] == limit_name and not o.fields) for o in size)
        chk.require(sha_ok, "R2", f, "digest-from-pin", "fetch_sha256 is given a digest that does not originate "
                    "from the pinning entry: %s" % sorted(map(repr, sha)), ctx.site(bb))
        chk.require(size_ok, "R2", f, "length-from-pin", "the size bound of the digest-checked fetch does not "
                    "originate from the pinned length (or the configured limit when absent): %s"
                    % sorted(map(repr, size)), ctx.site(bb))
        if sha_ok:
            good.extend(ctx.track_call(bb).pos_edges(0))
    ps = parse_sites(ctx, fetched)
    # every path to the parse either saw "no pinned hashes" or went through the digest-checked fetch
    path = ctx.cfg.witness_path(ps, set(good) | set(none))
    chk.require(bool(good) and path is None, "R2", f, "digest-checked-when-pinned",
                "with a pinned digest present, the document can be parsed from a stream that did not come "
                "from fetch_sha256(pinned digest)", site_of(ctx.body.span), path=ctx.describe_path(path))
    # the parsed bytes are the fetched stream
    for bb in ps:
        t = ctx.body.blocks[bb].term
        src = ctx.origins.of_operand(t.args[0])
        ok = only_calls(src, INTO_VEC)
        if ok:
            for o in src:
                st = ctx.origins.of_operand(o.extra.args[0])
                ok = ok and only_calls(st, FETCH_SHA, FETCH_MAX)
        chk.require(ok, "R2", f, "parsed-bytes-are-fetched",
                    "the parsed bytes do not originate from the size/digest-checked stream: %s"
                    % sorted(map(repr, src)), ctx.site(bb))
    # without a pinned digest the fetch is still bounded by pinned length / limit
    for bb, t in ctx.calls(FETCH_MAX):
        size = ctx.origins.of_operand(t.args[2])
        size_ok = bool(size) and all(
            len_pred(o) or (o.kind in ("upvar", "param") and o.key[1] == limit_name and not o.fields) for o in size)
        chk.require(size_ok, "R2", f, "length-from-pin-nohash", "the size bound of the fetch does not originate "
                    "from the pinned length / configured limit: %s" % sorted(map(repr, size)), ctx.site(bb))


def consistent_switch(ctx, cs_pred):
    """(true_edges, false_edges) of switches on the consistent_snapshot flag"""
    te, fe = [], []
    for b in ctx.body.blocks:
        if b.cleanup or b.term is None or b.term.k != "switch":
            continue
        t = b.term
        if t.discr.place is None:
            continue
        og = ctx.origins.of_operand(t.discr)
        if og and all(cs_pred(o) for o in og):
            for v, d in t.tv:
                (fe if v == 0 else te).append((b.idx, d, v))
            e = (b.idx, t.otherwise, "otherwise")
            if any(v == 0 for v, _ in t.tv):
                te.append(e)
            else:
                fe.append(e)
    return te, fe


def cs_pred(o):
    return o.kind in ("upvar", "param") and (o.fields[-1:] == ("consistent_snapshot",) or
                                             (o.key[1] == "consistent_snapshot" and not o.fields))


def template_rule(chk, ctx, rule, name_operands, use_blocks, suffix_shape, version_pred, label):
    """the file name is VERSION-prefixed exactly on the consistent_snapshot edge, VERSION from the pin"""
    f = ctx.fn
    te, fe = consistent_switch(ctx, cs_pred)
    if not chk.require(bool(te) and bool(fe), rule, f, label + ":consistent-switch",
                       "no branch on root.signed.consistent_snapshot selects the file name", site_of(ctx.body.span)):
        return
    tpls = []
    for op in name_operands:
        tpls.extend(templates_of(ctx, op) if not isinstance(op, Origin) else [template_of_origin(ctx, op)])
    shapes = sorted(set(shape(p) for p, _ in tpls))
    want = sorted({'VERSION"."%s' % suffix_shape if not suffix_shape.startswith('"') else 'VERSION".%s' % suffix_shape[1:],
                   suffix_shape})
    chk.require(shapes == want, rule, f, label + ":templates",
                "file-name templates are %s, expected %s" % (shapes, want), site_of(ctx.body.span))
    for pieces, dbb in tpls:
        sh = shape(pieces)
        if sh.startswith("VERSION"):
            vo = pieces[0][2]
            chk.require(bool(vo) and all(version_pred(o) for o in vo), rule, f, label + ":version-from-pin",
                        "the version in the versioned file name does not originate from the pinning entry: %s"
                        % sorted(map(repr, vo)), site_of(ctx.body.span))
            if dbb is not None:
                p = ctx.cfg.witness_path([dbb], te)
                chk.require(p is None, rule, f, label + ":versioned-only-when-consistent",
                            "the versioned name is built on a path not guarded by consistent_snapshot == true",
                            site_of(ctx.body.span), path=ctx.describe_path(p))
                # on the consistent path the use site is reached only through the versioned name
                p2 = ctx.cfg.witness_path(use_blocks, (), starts=[e[1] for e in te], removed_blocks=[dbb])
                chk.require(p2 is None, rule, f, label + ":consistent-uses-versioned",
                            "with consistent snapshots the un-versioned file name can be used",
                            site_of(ctx.body.span), path=ctx.describe_path(p2))


def run(chk, prog):
    chk.rules_live = ["R1", "R2", "R3", "R4", "R5"]
    chk.explanation = (
        "Must-pass-through and provenance rules over MIR: snapshot/targets/delegated documents are "
        "returned, persisted or attached only through the edge `fetched.signed.version == "
        "pin.version` with pin = parent.signed.meta.get(<file>) and a missing pin is an error; when "
        "the pin carries hashes the parsed bytes come from fetch_sha256(pinned sha256, pinned "
        "length|limit); file-name templates are VERSION-prefixed exactly under consistent_snapshot "
        "with VERSION from the pin (lib.rs) / the trusted document (cache.rs); the stream adapters "
        "pass a chunk on only below the size bound and the end-of-stream only on digest equality; "
        "fetch_sha256 = DigestAdapter(fetch_max_size(..)).")
    chk.not_decided = ["SHA-256 itself", "byte-level re-serialisation scenarios (decided only: which bytes are hashed)"]
    chk.assumptions = ["aws-lc-rs digest and HashMap::get behave as documented"]
    # ---- R1/R2/R3 in lib.rs
    specs = [
        ("tough::load_snapshot", "timestamp", "snapshot.json", "max_snapshot_size"),
        ("tough::load_targets", "snapshot", "targets.json", "max_targets_size"),
    ]
    n1 = 0
    for fn, parent, key, limit in specs:
        ctx = async_body(prog, fn)
        if ctx is None:
            chk.anchor_missing("R1", fn)
            continue
        chk.analysed_body(ctx.body)
        fetched = fetched_origin(ctx)
        lookups = meta_lookups(ctx, parent, key)
        if not lookups:
            chk.fail("R1", ctx.fn, key + ":pin-lookup", "%s.signed.meta.get(%r) is never consulted" % (parent, key))
            continue
        n1 += 1
        sinks = ctx.ok_return_blocks() + [bb for bb, _ in ctx.calls(CREATE)]
        version_eq(chk, ctx, "R1", fetched, lookups, sinks, key)
        digest_rule(chk, ctx, fetched, lookups, limit)
        joins = ctx.calls("url::Url::join")
        template_rule(chk, ctx, "R3", [t.args[1] for _, t in joins], [bb for bb, _ in joins],
                      '"%s"' % key, is_meta_origin(ctx, lookups, ("version",)), key)
    # delegated roles
    ctx = async_body(prog, "tough::load_delegations")
    if ctx is None:
        chk.anchor_missing("R1", "tough::load_delegations")
    else:
        chk.analysed_body(ctx.body)
        lookups = []
        for bb, t, tpls in meta_lookups(ctx, "snapshot"):
            ok = bool(tpls)
            for pieces, _ in tpls:
                if shape(pieces) != 'RAW".json"':
                    ok = False
                else:
                    ok = ok and all(o.fields[-1:] == ("name",) for o in pieces[0][2])
            if ok:
                lookups.append((bb, t, tpls))
        if not lookups:
            chk.fail("R1", ctx.fn, "delegated:pin-lookup", "snapshot.signed.meta.get(\"<role>.json\") is never consulted")
        else:
            n1 += 1
            creates = ctx.calls(CREATE)
            fetched = set()
            for bb, t in creates:
                fetched |= ctx.origins.of_operand(t.args[2])
            inserts = [bb for bb, t in ctx.calls("std::collections::hash::map::HashMap::insert")
                       if any(base(o) in fetched for o in deep_origins(ctx, t.args[2], 2))]
            chk.require(bool(fetched) and only_calls(fetched, *SER_PARSE), "R1", ctx.fn, "delegated:parse-site",
                        "unrecognised-idiom: persisted delegated role does not originate from a parse site")
            sinks = [bb for bb, _ in creates] + inserts
            chk.floor("R1-sinks", len(sinks), 2, "sinks (create + insert) of a fetched delegated role")
            version_eq(chk, ctx, "R1", fetched, lookups, sinks, "delegated")
            joins = ctx.calls("url::Url::join")
            template_rule(chk, ctx, "R3", [t.args[1] for _, t in joins], [bb for bb, _ in joins],
                          'ENC".json"', is_meta_origin(ctx, lookups, ("version",)), "delegated")
    chk.floor("R1", n1, 3, "pinned-version checks")
    r3_cache(chk, prog)
    r4_adapters(chk, prog)
    r5_composition(chk, prog)


def returned_strings(ctx):
    """origins of the String a function returns (directly, or wrapped in Some/Ok) and the blocks
    where that return value is assigned; early `?` returns of None/Err are not string results"""
    og = set()
    blocks = []
    for b in ctx.body.blocks:
        if b.cleanup:
            continue
        for s in b.stmts:
            if s.k == "assign" and s.place.local == 0 and not s.place.proj:
                if s.rv.k == "agg" and s.rv.j.get("variant") in ("Some", "Ok"):
                    og |= ctx.origins.of_operand(s.rv.ops[0])
                    blocks.append(b.idx)
                elif s.rv.k == "use":
                    og |= ctx.origins.of_operand(s.rv.ops[0])
                    blocks.append(b.idx)
        t = b.term
        if t is not None and t.k == "call" and t.dest.local == 0 and not t.dest.proj and \
                not t.is_call_to("core::ops::try_trait::FromResidual::from_residual"):
            og |= ctx.origins.of_local(0)
            blocks.append(b.idx)
    og = set(o for o in og if not is_call(o, "core::ops::try_trait::FromResidual::from_residual"))
    return og, blocks


def r3_cache(chk, prog):
    P = "tough::cache::<impl tough::Repository>::"
    specs = [
        (P + "snapshot_filename", '"snapshot.json"', lambda o: o.kind in ("param", "upvar") and o.fields == ("snapshot", "signed", "version"), "snapshot.json"),
        (P + "targets_filename", '"targets.json"', lambda o: o.kind in ("param", "upvar") and o.fields == ("targets", "signed", "version"), "targets.json"),
    ]
    for fn, suffix, vpred, label in specs:
        ctx = ctx_of(prog, fn)
        if ctx is None:
            chk.anchor_missing("R3", fn)
            continue
        chk.analysed_body(ctx.body)
        og, useb = returned_strings(ctx)
        template_rule(chk, ctx, "R3", list(og), useb, suffix, vpred, "cache:" + label)
    ctx = ctx_of(prog, P + "delegated_filename")
    if ctx is None:
        chk.anchor_missing("R3", P + "delegated_filename")
        return
    chk.analysed_body(ctx.body)
    lookups = []
    for bb, t in ctx.calls(HGET):
        recv = ctx.origins.of_operand(t.args[0])
        if recv and all(o.fields == ("snapshot", "signed", "meta") for o in recv):
            lookups.append((bb, t, None))
    og, useb = returned_strings(ctx)
    template_rule(chk, ctx, "R3", list(og), useb, 'ENC".json"',
                  is_meta_origin(ctx, lookups, ("version",)), "cache:delegated")


def _stmt_upvars(ctx, s_):
    out = set()
    if s_.place.local == 1 and s_.place.proj:
        out |= set(o for o in ctx.origins.of_place(s_.place) if o.kind == "upvar")
    for op_ in (s_.rv.ops or []):
        if not op_.is_const and op_.place is not None:
            out |= set(o for o in ctx.origins.of_operand(op_) if o.kind == "upvar")
    return out


def r4_adapters(chk, prog):
    # max_size_adapter: a chunk is passed on only on the edge size <= max_size, and size counts every Ok chunk.
    # Two accountings are accepted: (A) a running total starting at 0 compared with the bound,
    # (B) a remaining budget starting at the bound, compared with the length of the chunk.
    found = False
    for b in [b for b in prog.bodies.values() if b.path.startswith("tough::io::max_size_adapter::{closure")]:
        ctx = ctx_of(prog, b.path)
        roles = {}
        for o in set(o for blk in b.blocks for s_ in blk.stmts if s_.k == "assign" for o in _stmt_upvars(ctx, s_)) | \
                set(o for (bb, op, a, bop, tr, sp) in ctx.comparisons() for x in (a, bop) for o in ctx.origins.of_operand(x) if o.kind == "upvar"):
            pctx, src = upvar_source(prog, ctx, o.key[0])
            if not src:
                continue
            if all(x.kind == "param" and x.key[1] == "max_size" and not x.fields for x in src):
                roles[o.key[1]] = "bound"
            elif all(x.kind == "const" and x.extra is not None and x.extra.const_int == 0 for x in src):
                roles[o.key[1]] = "zero"
        # a variable that is assigned in the closure is state; the bound itself is never assigned
        assigned = set()
        for blk in b.blocks:
            for s_ in blk.stmts:
                if s_.k == "assign" and s_.place.local == 1 and s_.place.proj:
                    for o in ctx.origins.of_place(s_.place):
                        if o.kind == "upvar":
                            assigned.add(o.key[1])
        total = [n for n, r in roles.items() if r == "zero" and n in assigned]
        budget = [n for n, r in roles.items() if r == "bound" and n in assigned]
        bound = [n for n, r in roles.items() if r == "bound" and n not in assigned]
        is_up = lambda og, names: bool(og) and all(o.kind == "upvar" and o.key[1] in names for o in og)

        def is_len(op_):
            deep = deep_origins(ctx, op_, 6)
            return any(is_call(o, "bytes::bytes::Bytes::len") for o in deep) and not any(o.kind == "upvar" for o in deep)
        T = []
        strict = None
        mode = None
        for (bb, op, a, bop, tr, sp) in ctx.comparisons():
            oa, ob = ctx.origins.of_operand(a), ctx.origins.of_operand(bop)
            if total and bound and is_up(oa, total) and is_up(ob, bound):
                edges, strict = normalise_le(op, True, tr)
                mode = "total"
            elif total and bound and is_up(oa, bound) and is_up(ob, total):
                edges, strict = normalise_le(op, False, tr)
                mode = "total"
            elif budget and is_up(ob, budget) and is_len(a):
                edges, strict = normalise_le(op, True, tr)
                mode = "budget"
            elif budget and is_up(oa, budget) and is_len(bop):
                edges, strict = normalise_le(op, False, tr)
                mode = "budget"
            else:
                continue
            T.extend(edges or [])
        if not T:
            continue
        found = True
        state = total if mode == "total" else budget
        chk.analysed_body(b)
        f = short_fn(b.path)
        # blocks that pass the incoming chunk (parameter _2) on
        passb = []
        for blk in b.blocks:
            if blk.cleanup:
                continue
            for s in blk.stmts:
                if s.k == "assign" and s.place.local == 0 and not s.place.proj and s.rv.k == "use" \
                        and s.rv.ops[0].place is not None:
                    og = ctx.origins.of_operand(s.rv.ops[0])
                    if og and all(o.kind == "param" for o in og):
                        passb.append(blk.idx)
        chk.require(bool(passb), "R4", f, "pass-through-site", "unrecognised-idiom: no `return chunk` found", site_of(b.span))
        okedges = ctx.tracker.track(2).pos_edges(0)
        starts = [e[1] for e in okedges]
        if mode == "total":
            path = ctx.cfg.witness_path(passb, T)
        else:
            # the budget test concerns Ok chunks (an Err item carries no bytes)
            path = ctx.cfg.witness_path(passb, T, starts=starts) if okedges else [0]
        chk.require(path is None, "R4", f, "chunk-only-below-bound",
                    "max_size_adapter passes a chunk on without the edge on which the bytes received so far "
                    "(including this chunk) <= max_size holds", site_of(b.span), path=ctx.describe_path(path),
                    detail="accounting=%s" % mode)
        chk.require(strict == "le", "R4", f, "exact-size-accepted",
                    "max_size_adapter rejects a stream of exactly max_size bytes (strict comparison)", site_of(b.span))
        # total := total + len(chunk) / budget := budget - len(chunk) on the Ok edge, before the chunk is passed on
        upd = []
        for blk in b.blocks:
            if blk.cleanup:
                continue
            for s in blk.stmts:
                if s.k == "assign" and s.place.local == 1 and s.place.proj:
                    tgt = ctx.origins.of_place(s.place)
                    if is_up(tgt, state):
                        deep = deep_origins(ctx, s.rv.ops[0], 5) if s.rv.ops else set()
                        if mode == "total":
                            arith = any((o.kind == "call" and o.key[1].endswith(("saturating_add", "checked_add", "wrapping_add")))
                                        or (o.kind == "bin" and o.key[2].startswith("Add")) for o in deep)
                        else:
                            arith = any((o.kind == "call" and o.key[1].endswith(("saturating_sub", "checked_sub")))
                                        or (o.kind == "bin" and o.key[2].startswith("Sub")) for o in deep)
                        has_len = any(is_call(o, "bytes::bytes::Bytes::len") for o in deep)
                        has_state = any(o.kind == "upvar" and o.key[1] in state for o in deep)
                        if arith and has_len and has_state:
                            upd.append(blk.idx)
        p2 = ctx.cfg.witness_path(passb, (), starts=starts, removed_blocks=upd) if okedges else [0]
        chk.require(bool(upd) and p2 is None, "R4", f, "size-counts-every-chunk",
                    "an Ok chunk can be passed on without being counted against the bound", site_of(b.span),
                    path=ctx.describe_path(p2))
        if mode == "budget":
            p4 = ctx.cfg.witness_path(upd, T)
            chk.require(p4 is None, "R4", f, "tested-before-deducted",
                        "the chunk is deducted from the remaining budget before its length was compared with it",
                        site_of(b.span), path=ctx.describe_path(p4))
        if mode == "total":
            # the test must see the total that already includes this chunk
            tb = set(e[0] for e in T)
            errs = ctx.tracker.track(2).neg_edges(0)
            p3 = ctx.cfg.witness_path(list(tb), errs, removed_blocks=upd) if okedges else [0]
            chk.require(p3 is None, "R4", f, "counted-before-tested",
                        "the bound is tested before the current chunk has been added to the total: the chunk "
                        "that crosses the bound is passed on", site_of(b.span), path=ctx.describe_path(p3))
    if not found:
        chk.anchor_missing("R4", "tough::io::max_size_adapter closure comparing size with max_size")
    # DigestAdapter::poll_next: end-of-stream is passed on only on digest equality
    pn = [b for b in prog.bodies.values() if b.path.endswith("DigestAdapter as futures_core::stream::Stream>::poll_next")]
    if not pn:
        chk.anchor_missing("R4", "<tough::io::DigestAdapter as Stream>::poll_next")
        return
    ctx = ctx_of(prog, pn[0].path)
    chk.analysed_body(ctx.body)
    f = ctx.fn
    inner = ctx.calls("futures_core::stream::Stream::poll_next")
    if not chk.require(len(inner) == 1, "R4", f, "inner-poll", "unrecognised-idiom: expected one inner poll_next call"):
        return
    ibb, it = inner[0]
    recv = ctx.origins.of_operand(it.args[0])
    chk.require(bool(recv) and all(o.fields[-1:] == ("stream",) for o in recv), "R4", f, "polls-wrapped-stream",
                "DigestAdapter polls something else than its wrapped stream: %s" % sorted(map(repr, recv)), ctx.site(ibb))
    tr = ctx.track_call(ibb)
    none_edges = tr.neg_edges(1)
    ok_edges = tr.pos_edges(2)
    passb = []
    for blk in ctx.body.blocks:
        if blk.cleanup:
            continue
        for s in blk.stmts:
            if s.k == "assign" and s.place.local == 0 and not s.place.proj and s.rv.k == "use":
                og = ctx.origins.of_operand(s.rv.ops[0])
                if og and all(o.kind == "call" and o.key[0] == ibb for o in og):
                    passb.append(blk.idx)
    T = []
    for (bb, op, a, bop, trc, sp) in ctx.comparisons():
        if op not in ("eq", "ne"):
            continue
        da = deep_origins(ctx, a, 4)
        db = deep_origins(ctx, bop, 4)
        fin = lambda s: any(is_call(o, "aws_lc_rs::digest::Context::finish") for o in s)
        hsh = lambda s: any(o.fields[-1:] == ("hash",) for o in s)
        if (fin(da) and hsh(db)) or (fin(db) and hsh(da)):
            T.extend(trc.pos_edges(0) if op == "eq" else trc.neg_edges(0))
    path = ctx.cfg.witness_path(passb, T, starts=[e[1] for e in none_edges]) if none_edges else [0]
    chk.require(bool(passb) and bool(T) and path is None, "R4", f, "end-only-on-digest-match",
                "the digest-checked stream can end without error on a path that does not pass the edge "
                "computed digest == expected digest", site_of(ctx.body.span), path=ctx.describe_path(path))
    # the digest that is finished is the one updated with every Ok chunk
    upd = ctx.calls("aws_lc_rs::digest::Context::update")
    updb = [bb for bb, t in upd if all(o.fields[-1:] == ("digest",) for o in ctx.origins.of_operand(t.args[0]))]
    p3 = ctx.cfg.witness_path(passb, (), starts=[e[1] for e in ok_edges], removed_blocks=updb) if ok_edges else [0]
    chk.require(bool(updb) and p3 is None, "R4", f, "chunks-are-hashed",
                "an Ok chunk can be passed on without being fed to the digest", site_of(ctx.body.span),
                path=ctx.describe_path(p3))
    fins = ctx.calls("aws_lc_rs::digest::Context::finish")
    okf = bool(fins) and all(any(o.fields[-1:] == ("digest",) for o in deep_origins(ctx, t.args[0], 3)) for bb, t in fins)
    chk.require(okf, "R4", f, "finishes-own-digest", "the compared digest is not the adapter's running digest")


def r5_composition(chk, prog):
    ctx = async_body(prog, FETCH_SHA)
    if ctx is None:
        chk.anchor_missing("R5", FETCH_SHA)
    else:
        chk.analysed_body(ctx.body)
        ret = fetched_origin(ctx)
        ok = only_calls(ret, "tough::io::DigestAdapter::sha256")
        if ok:
            for o in ret:
                t = o.extra
                st = ctx.origins.of_operand(t.args[0])
                ok = ok and only_calls(st, FETCH_MAX)
                sha = ctx.origins.of_operand(t.args[1])
                ok = ok and bool(sha) and all(x.kind in ("upvar", "param") and x.key[1] == "sha256" for x in sha)
                for s in (st if ok else ()):
                    sz = ctx.origins.of_operand(s.extra.args[2])
                    ok = ok and bool(sz) and all(x.kind in ("upvar", "param") and x.key[1] == "size" for x in sz)
        chk.require(ok, "R5", ctx.fn, "sha256-wraps-max-size",
                    "fetch_sha256 does not return DigestAdapter::sha256(fetch_max_size(.., size, ..), sha256): %s"
                    % sorted(map(repr, ret)))
    ctx = async_body(prog, FETCH_MAX)
    if ctx is None:
        chk.anchor_missing("R5", FETCH_MAX)
        return
    chk.analysed_body(ctx.body)
    ret = fetched_origin(ctx)
    ok = only_calls(ret, "tough::io::max_size_adapter")
    if ok:
        for o in ret:
            t = o.extra
            st = ctx.origins.of_operand(t.args[0])
            ok = ok and only_calls(st, "tough::transport::Transport::fetch")
            sz = ctx.origins.of_operand(t.args[2])
            ok = ok and bool(sz) and all(x.kind in ("upvar", "param") and x.key[1] == "max_size" for x in sz)
    chk.require(ok, "R5", ctx.fn, "max-size-wraps-transport",
                "fetch_max_size does not return max_size_adapter(transport.fetch(url), .., max_size, ..): %s"
                % sorted(map(repr, ret)))
