"""C19 — a cached (cloned) repository is a faithful, loadable copy."""
from .common import *
from ..templates import sink_templates, shape

P = "tough::cache::<impl tough::Repository>::"
SAVE = "tough::Repository::save_target"
CFT = P + "cache_file_from_transport"


def run(chk, prog):
    chk.rules_live = ["R1", "R3", "R4", "R5", "R6", "R7"]
    chk.explanation = (
        "Who-may-write + template rules over cache.rs: target files are written only through "
        "save_target (so the verified, atomic path of C06/C08 applies) with the digest prefix exactly "
        "under consistent snapshots, for every requested (or every listed) target; the only other "
        "file-system effects are mkdir of the two output directories and the metadata copy; the set "
        "of metadata file-name templates written by the cache equals the set the loader requests "
        "(so the copy is loadable), the root chain covers the inclusive range 1..=trusted version, "
        "delegated role files are enumerated recursively; Ok is returned only after every step "
        "succeeded.")
    chk.not_decided = ["byte identity of the copied metadata (it is re-fetched, size-capped, not re-verified)",
                       "a remote that changes between load and cache"]
    chk.assumptions = ["save_target as decided by C06/C08"]
    fam = [b for b in prog.bodies.values() if b.path.startswith("tough::cache::")]
    chk.floor("bodies", len(fam), 10, "bodies in tough::cache")
    effects = []
    for b in fam:
        chk.analysed_body(b)
        for bb, t in b.calls():
            for n in FS_ALL_MUTATING:
                if t.is_call_to(n):
                    effects.append((b, bb, t, n))
                    break
    allowed = {
        P + "cache": FS_MKDIR, P + "cache_metadata": FS_MKDIR,
        CFT: ("tokio::fs::file::File::create",),
    }
    for b, bb, t, n in effects:
        owner = root_fn(b.path)
        ok = owner in allowed and n in allowed[owner]
        chk.require(ok, "R1", owner, "effect:" + n.split("::")[-1],
                    "cache.rs performs the file-system effect %s in %s; targets must be written only through "
                    "save_target and metadata only by cache_file_from_transport" % (n, owner), site_of(t.sp))
    chk.floor("R1", len(effects), 3, "file-system effects in cache.rs")
    # cache_target -> save_target
    ctx = async_body(prog, P + "cache_target")
    if ctx is None:
        chk.anchor_missing("R1", P + "cache_target")
    else:
        saves = ctx.calls(SAVE)
        chk.require(len(saves) == 1, "R1", ctx.fn, "uses-save_target", "cache_target does not save through Repository::save_target")
        for bb, t in saves:
            nm = ctx.origins.of_operand(t.args[1])
            od = ctx.origins.of_operand(t.args[2])
            chk.require(all(o.kind in ("upvar", "param") and o.key[1] == "name" for o in nm) and
                        all(o.kind in ("upvar", "param") and o.key[1] == "outdir" for o in od) and bool(nm) and bool(od),
                        "R1", ctx.fn, "passes-name-and-outdir", "save_target is not called with (name, outdir)", ctx.site(bb))
            # prefix selection
            pre = ctx.origins.of_operand(t.args[3])
            kinds = set(o.key[2].split("::")[-1] for o in pre if o.kind == "agg")
            from .c05 import consistent_switch, cs_pred
            te, fe = consistent_switch(ctx, cs_pred)
            dig_blocks = [o.key[0] for o in pre if o.kind == "agg" and o.key[2].endswith("Prefix::Digest")]
            none_blocks = [o.key[0] for o in pre if o.kind == "agg" and o.key[2].endswith("Prefix::None")]
            p1 = ctx.cfg.witness_path(dig_blocks, te)
            p2 = ctx.cfg.witness_path(none_blocks, fe)
            chk.require(kinds == {"Digest", "None"} and bool(te) and p1 is None and p2 is None, "R1", ctx.fn,
                        "digest-prefix-iff-consistent",
                        "the cached target keeps the digest prefix not exactly when the repository uses consistent snapshots",
                        ctx.site(bb))
        ret = ctx.origins.of_local(0)
        chk.require(bool(saves) and all(o.kind == "call" and o.key[0] in set(bb for bb, _ in saves) for o in ret), "R1", ctx.fn,
                    "returns-save-result", "cache_target does not return save_target's result (a failed save would be ignored)")
        # .. and has no other way to succeed ("never stores a target that failed verification": a file that
        # is merely present, e.g. from an earlier run, was not verified by this run)
        okb = ctx.ok_return_blocks()
        pos = []
        for bb, t in saves:
            pos.extend(ctx.track_call(bb).pos_edges(0))
        p = ctx.cfg.witness_path(okb, pos) if okb else None
        chk.require(p is None, "R1", ctx.fn, "ok-needs-save",
                    "cache_target can return Ok without save_target having succeeded (e.g. because a file of that "
                    "name is already there): unverified bytes stay in the cache", path=ctx.describe_path(p))
    # cache(): every requested / every listed target, errors propagate
    cctx = async_body(prog, P + "cache")
    if cctx is None:
        chk.anchor_missing("R1", P + "cache")
    else:
        cts = cctx.calls(P + "cache_target")
        chk.floor("R1-targets", len(cts), 2, "cache_target calls in cache() (subset branch, all-targets branch)")
        okb = cctx.ok_return_blocks()
        for bb, t in cts:
            neg = cctx.track_call(bb).neg_edges(0)
            r = cctx.cfg.reach_from_edges(neg) if neg else set()
            chk.require(bool(neg) and not (r & set(okb)), "R1", cctx.fn, "target-error-propagates",
                        "a failing cache_target does not make cache() fail", cctx.site(bb))
            loop = next((c for c in cctx.cfg.sccs() if bb in c), None)
            chk.require(loop is not None, "R1", cctx.fn, "every-target", "cache_target is not called in a loop over the targets", cctx.site(bb))
            od = cctx.origins.of_operand(t.args[1])
            chk.require(all(o.kind in ("upvar", "param") and o.key[1] == "targets_outdir" for o in od) and bool(od), "R1", cctx.fn,
                        "targets-go-to-targets-outdir", "targets are not saved into targets_outdir", cctx.site(bb))
        srcs = set()
        for bb, t in cts:
            for o in deep_origins(cctx, t.args[2], 6):
                if is_call(o, "tough::schema::Targets::targets_map"):
                    srcs.add("all")
                if o.kind in ("upvar", "param") and o.key[1] == "targets_subset":
                    srcs.add("subset")
        chk.require(srcs == {"all", "subset"}, "R1", cctx.fn, "subset-or-all",
                    "cache() does not cover both 'the named targets' and 'all targets when none were named': %s" % sorted(srcs))
        # metadata + root chain
        for fn, label in ((P + "cache_metadata_impl", "metadata"),):
            calls = cctx.calls(fn)
            pos = []
            for bb, t in calls:
                pos.extend(cctx.track_call(bb).pos_edges(0))
            p = cctx.cfg.witness_path(okb, pos)
            chk.require(bool(pos) and p is None, "R1", cctx.fn, "ok-needs-" + label,
                        "cache() returns Ok on a path that did not copy the metadata", path=cctx.describe_path(p))
    r3_chain(chk, prog)
    r4_agreement(chk, prog)
    # R5: the path every cached target takes (save_target) — shared with C08
    from . import c08
    from .c06 import SubCheck
    c08.run(SubCheck(chk, "R5"), prog)
    # R6: 'a client .. loads a repository with identical role versions' needs every metadata file copied
    # in full: the bound applied to each copy is that role's own limit (C09's cache provenance rule)
    from . import c09
    c09.r2_cache_provenance(SubCheck(chk, "R6"), prog)
    # R7: metadata copies are written through tokio::fs::File (the write completes on a background thread):
    # Ok is reported only after a successful flush (defect D17, repaired)
    cf = async_body(prog, P + "cache_file_from_transport")
    if cf is None:
        chk.anchor_missing("R7", P + "cache_file_from_transport")
    else:
        chk.analysed_body(cf.body)
        sinks = cf.ok_return_blocks()
        tails = cf.tail_result_calls()
        if tails and not sinks:
            # `..; file.flush().await.context(..)` as tail expression: the function's result IS the flush's
            work = list(cf.origins.of_local(0))
            seen_ = set()
            is_flush = False
            while work and len(seen_) < 40:
                o = work.pop()
                if o.ident() in seen_:
                    continue
                seen_.add(o.ident())
                if o.kind == "call" and o.extra is not None:
                    if o.extra.is_call_to(*ASYNC_FLUSH):
                        is_flush = True
                    else:
                        for a in o.extra.args[:1]:
                            work.extend(cf.origins.of_operand(a))
            writes = cf.calls(*ASYNC_WRITE)
            chk.require(is_flush and bool(writes), "R7", cf.fn, "buffered-write-flushed-before-Ok",
                        "the result of cache_file_from_transport is not that of flushing the file it wrote: a failing "
                        "deferred write would be reported as success", cf.site(writes[0][0]) if writes else None)
            nw = len(writes)
        else:
            nw = async_write_flush_rule(chk, cf, "R7", sinks + tails, "Ok")
        chk.floor("R7", nw, 1, "buffered async writes in cache_file_from_transport")


def r3_chain(chk, prog):
    for fn in (P + "cache", P + "cache_metadata"):
        ctx = async_body(prog, fn)
        if ctx is None:
            chk.anchor_missing("R3", fn)
            continue
        # the flag: on the true edge of `cache_root_chain`, Ok needs the chain copy
        te = []
        for b in ctx.body.blocks:
            if b.cleanup or b.term is None or b.term.k != "switch":
                continue
            og = ctx.origins.of_operand(b.term.discr)
            if og and all(o.kind in ("upvar", "param") and o.key[1] == "cache_root_chain" for o in og):
                for v, d in b.term.tv:
                    if v != 0:
                        te.append((b.idx, d, v))
                if any(v == 0 for v, _ in b.term.tv):
                    te.append((b.idx, b.term.otherwise, "otherwise"))
        pos = []
        for bb, t in ctx.calls(P + "cache_root_chain"):
            pos.extend(ctx.track_call(bb).pos_edges(0))
        okb = ctx.ok_return_blocks()
        p = ctx.cfg.witness_path(okb, pos, starts=[e[1] for e in te]) if te else [0]
        chk.require(bool(te) and bool(pos) and p is None, "R3", ctx.fn, "root-chain-when-requested",
                    "with cache_root_chain = true, Ok is returned without the root chain having been copied", path=ctx.describe_path(p))
    ctx = async_body(prog, P + "cache_root_chain")
    if ctx is None:
        chk.anchor_missing("R3", P + "cache_root_chain")
    else:
        chk.analysed_body(ctx.body)
        rng = ctx.calls("core::ops::range::RangeInclusive::new")
        ok = len(rng) == 1
        if ok:
            bb, t = rng[0]
            lo = ctx.origins.of_operand(t.args[0])
            hi = deep_origins(ctx, t.args[1], 3)
            ok = all(o.kind == "const" and o.extra is not None and o.extra.const_int == 1 for o in lo) and \
                any(o.fields[-3:] == ("root", "signed", "version") for o in hi)
        else:
            # the half-open spelling `1..version + 1`
            for b in ctx.body.blocks:
                for s_ in b.stmts:
                    if s_.k == "assign" and s_.rv.k == "agg" and s_.rv.j.get("adt") == "core::ops::range::Range":
                        lo = ctx.origins.of_operand(s_.rv.ops[0])
                        hi = ctx.origins.of_operand(s_.rv.ops[1])
                        plus1 = False
                        for o in hi:
                            if o.kind == "bin" and o.key[2].startswith("Add"):
                                ops = o.extra.rv.ops
                                one = any(x.is_const and x.const_int == 1 for x in ops)
                                ver = any(y.fields[-3:] == ("root", "signed", "version") for x in ops if not x.is_const
                                          for y in deep_origins(ctx, x, 3))
                                plus1 = one and ver
                        ok = all(o.kind == "const" and o.extra is not None and o.extra.const_int == 1 for o in lo) and bool(lo) and plus1
        chk.require(ok, "R3", ctx.fn, "range-1-to-trusted-version",
                    "the root chain is not copied for the inclusive range 1..=self.root.signed.version (exclusive ranges "
                    "show up as core::ops::Range and miss the trusted root itself)")
        cfts = ctx.calls(CFT)
        shapes = set()
        for bb, t in cfts:
            for sh, pieces in sink_templates(prog, ctx, t.args[1]):
                shapes.add(sh)
            loop = next((c for c in ctx.cfg.sccs() if bb in c), None)
            chk.require(loop is not None, "R3", ctx.fn, "every-version", "the copy is not inside the loop over versions", ctx.site(bb))
            neg = ctx.track_call(bb).neg_edges(0)
            r = ctx.cfg.reach_from_edges(neg) if neg else set()
            chk.require(bool(neg) and not (r & set(ctx.ok_return_blocks())), "R3", ctx.fn, "missing-root-is-error",
                        "a root version that cannot be copied does not fail the caching", ctx.site(bb))
        chk.require(shapes == {'VERSION".root.json"'}, "R3", ctx.fn, "root-file-names", "root chain files are named %s" % sorted(shapes))
    # delegated roles enumerated recursively
    mctx = async_body(prog, P + "cache_metadata_impl")
    if mctx is None:
        chk.anchor_missing("R3", P + "cache_metadata_impl")
    else:
        chk.analysed_body(mctx.body)
        rn = mctx.calls("tough::schema::Targets::role_names")
        chk.require(len(rn) >= 1, "R3", mctx.fn, "all-delegated-roles", "delegated role files are not enumerated with role_names()")
        n = len(mctx.calls(CFT))
        chk.floor("R3-files", n, 4, "metadata copies (snapshot, targets, timestamp, delegated)")
        okb = mctx.ok_return_blocks()
        for k_, (bb, t) in enumerate(sorted(mctx.calls(CFT), key=lambda x: (x[1].sp["l"], x[1].sp.get("c", 0)))):
            neg = mctx.track_call(bb).neg_edges(0)
            r = mctx.cfg.reach_from_edges(neg) if neg else set()
            chk.require(bool(neg) and not (r & set(okb)), "R3", mctx.fn, "copy-error-propagates#%d" % k_,
                        "a failing metadata copy does not fail the caching", mctx.site(bb))
    rctx = ctx_of(prog, "tough::schema::Targets::role_names")
    if rctx is not None:
        chk.analysed_body(rctx.body)
        rec = [1 for b in body_family(prog, rctx.body.path) for bb, t in b.calls() if t.is_call_to("tough::schema::Targets::role_names")]
        chk.require(bool(rec), "R3", rctx.fn, "recursive", "role_names() does not descend into delegated roles of delegated roles")


def r4_agreement(chk, prog):
    """what the cache writes is what the loader asks for"""
    written, wanted = set(), set()
    cf = async_body(prog, CFT)
    if cf is None:
        chk.anchor_missing("R4", CFT)
        return
    for bb, t in cf.calls("std::path::Path::join"):
        for sh, pieces in sink_templates(prog, cf, t.args[1]):
            written.add(sh)
    fetched_as = set()
    for bb, t in cf.calls("url::Url::join"):
        for sh, pieces in sink_templates(prog, cf, t.args[1]):
            fetched_as.add(sh)
    for fn in ("tough::load_root", "tough::load_timestamp", "tough::load_snapshot", "tough::load_targets", "tough::load_delegations"):
        ctx = async_body(prog, fn)
        if ctx is None:
            chk.anchor_missing("R4", fn)
            continue
        for bb, t in ctx.calls("url::Url::join"):
            for sh, pieces in sink_templates(prog, ctx, t.args[1]):
                wanted.add(sh)
    chk.require(written == wanted, "R4", "tough::cache", "written-names-equal-requested-names",
                "the cache writes metadata under %s but a client loading the copy requests %s (difference: %s)"
                % (sorted(written), sorted(wanted), sorted(written ^ wanted)))
    chk.require(written == fetched_as, "R4", cf.fn, "same-name-for-fetch-and-store",
                "cache_file_from_transport fetches %s but stores %s" % (sorted(fetched_as), sorted(written)))
    # the copy is written on every non-error path
    wbb = [bb for bb, t in cf.calls("tokio::io::util::async_write_ext::AsyncWriteExt::write_all")]
    errb = [bb for bb, t in cf.calls("core::ops::try_trait::FromResidual::from_residual")]
    pw = cf.cfg.witness_path(cf.cfg.return_blocks(), (), removed_blocks=wbb + errb)
    chk.require(bool(wbb) and pw is None, "R4", cf.fn, "always-stores",
                "cache_file_from_transport can return without having written the fetched bytes", path=cf.describe_path(pw))
    # the bytes written are the bytes fetched
    for bb, t in cf.calls("tokio::io::util::async_write_ext::AsyncWriteExt::write_all"):
        og = deep_origins(cf, t.args[1], 4)
        chk.require(any(is_call(o, "tough::transport::IntoVec::into_vec") for o in og) and
                    any(is_call(o, "tough::fetch::fetch_max_size") for o in og), "R4", cf.fn, "stores-fetched-bytes",
                    "the bytes stored are not the bytes fetched", cf.site(bb))
