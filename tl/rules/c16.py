"""C16 — role names never steer file access outside the metadata directories, nor collide."""
import re
from .common import *
from ..templates import sink_templates, shape

DS = ("tough::datastore::Datastore::create", "tough::datastore::Datastore::bytes", "tough::datastore::Datastore::remove")
ENCODE = "tough::encode_filename"
SAFE_KINDS = {"ENC", "VERSION", "HEX"}


def piece_regex(pc):
    if pc[0] == "lit":
        return re.escape(pc[1])
    return {"VERSION": "[1-9][0-9]*", "ENC": r"(?:[A-Za-z0-9_.~-]|%[0-9A-F]{2})*", "HEX": "[0-9a-f]+"}.get(pc[1], ".*")


def regex_of(pieces):
    return "".join(piece_regex(p) for p in pieces)


def representatives(pieces):
    """members of a template's language that stand for all of it w.r.t. the piece classes used here"""
    outs = [""]
    for pc in pieces:
        if pc[0] == "lit":
            outs = [o + pc[1] for o in outs]
        elif pc[1] == "VERSION":
            outs = [o + v for o in outs for v in ("1", "27")]
        elif pc[1] == "ENC":
            outs = [o + v for o in outs for v in ("x", "a.b", "1.root", "%2F")]
        elif pc[1] == "HEX":
            outs = [o + "ab12" for o in outs]
        else:
            outs = [o + "x" for o in outs]
    return outs


def overlaps(a, b):
    """do the languages of two templates intersect?  Exact for templates made of literals,
    VERSION and at most one ENC piece: a fixed/versioned name is matched against the other's regex."""
    ra, rb = re.compile(regex_of(a)), re.compile(regex_of(b))
    return any(rb.fullmatch(x) for x in representatives(a)) or any(ra.fullmatch(x) for x in representatives(b))


def run(chk, prog):
    chk.rules_live = ["R1", "R2", "R3", "R4"]
    chk.explanation = (
        "Taint + template rules: every file name reaching Url::join on the metadata base URL, the "
        "datastore API, the cache output directory and the editor's output is assembled (followed "
        "through callee return values and through parameters at all call sites) only from literals, "
        "version numbers and encode_filename(..) — never from a raw role name; the compiler-evaluated "
        "CHARACTERS_TO_ESCAPE contains every path-significant character and '%' (so the encoding is "
        "injective) and encode_filename applies exactly that set; file URLs become paths without "
        "percent-decoding; per directory the delegated-role template must not overlap a fixed name.")
    chk.not_decided = ["percent-encoding as a function (library property given the escape set)"]
    chk.assumptions = ["percent_encoding::utf8_percent_encode encodes exactly the given AsciiSet plus non-ASCII"]
    groups = {"metadata-url": [], "datastore": [], "cache-out": [], "editor-out": []}
    n_enc = 0
    for b in prog.bodies.values():
        if "/.cargo/" in b.file or not (b.path.startswith("tough::") or b.path.startswith("<tough::")):
            continue
        ctx = None
        for bb, t in b.calls():
            grp = None
            idx = 1
            if t.is_call_to("url::Url::join"):
                ctx = ctx or ctx_of(prog, b.path)
                recv = ctx.origins.of_operand(t.args[0])
                names = set(o.key[1] for o in recv if o.kind in ("upvar", "param")) | set(o.fields[-1] for o in recv if o.fields)
                if names & {"metadata_base_url", "metadata_url", "metadata_base"}:
                    grp = "metadata-url"
                elif names & {"targets_base_url", "targets_url"}:
                    continue
                else:
                    grp = "metadata-url" if not names else None
                    if grp is None:
                        continue
            elif t.is_call_to(*DS):
                grp = "datastore"
            elif t.is_call_to("std::path::Path::join"):
                f = short_fn(b.path)
                if f.endswith("cache_file_from_transport"):
                    grp = "cache-out"
                elif f.startswith("tough::editor::signed::SignedRole") and f.endswith("::write"):
                    grp = "editor-out"
                else:
                    continue
            else:
                continue
            ctx = ctx or ctx_of(prog, b.path)
            chk.analysed_body(b)
            for sh, pieces in sink_templates(prog, ctx, t.args[idx]):
                groups[grp].append((sh, pieces, ctx, bb))
                bad = [pc for pc in pieces if pc[0] == "val" and pc[1] not in SAFE_KINDS]
                if any(pc[0] == "val" and pc[1] == "ENC" for pc in pieces):
                    n_enc += 1
                chk.require(not bad, "R1", ctx.fn, "%s:%s" % (grp, sh),
                            "a file name reaching %s is built from %s: a delegated role name (or another "
                            "unsanitised string) would select a path outside the directory / another role's file; "
                            "only literals, version numbers and encode_filename(..) may reach this sink"
                            % (grp, [(pc[1], sorted(map(repr, pc[2]))[:2]) for pc in bad]), ctx.site(bb))
    chk.floor("R1", n_enc, 6, "sanitised (encode_filename) flows of role names into file-name sinks")
    for g, v in groups.items():
        chk.floor("R1-" + g, len(v), 1, "file-name sinks in group " + g)
    r2_escape_set(chk, prog)
    r3_no_decoding(chk, prog)
    r4_disjoint(chk, groups)


def r2_escape_set(chk, prog):
    val = prog.consts.get("tough::CHARACTERS_TO_ESCAPE")
    if not chk.require(val is not None and "bytes" in val, "R2", "tough::CHARACTERS_TO_ESCAPE", "evaluated",
                       "anchor-missing: CHARACTERS_TO_ESCAPE could not be evaluated by the compiler"):
        return
    by = val["bytes"]
    bits = set()
    for i, b in enumerate(by):
        for k in range(8):
            if b & (1 << k):
                bits.add(i * 8 + k)
    must = set(range(0x20)) | {0x7f} | set(map(ord, "/\\%?#: \"<>|*;&=+$,@[]{}^`'!()"))
    missing = sorted(must - bits)
    chk.require(not missing, "R2", "tough::CHARACTERS_TO_ESCAPE", "path-significant-characters-escaped",
                "CHARACTERS_TO_ESCAPE leaves %s unescaped: role names containing them could traverse directories "
                "or two names could map to one file" % [chr(c) if 32 < c < 127 else hex(c) for c in missing])
    safe = set(range(128)) - bits
    allowed_safe = set(map(ord, "ABCDEFGHIJKLMNOPQRSTUVWXYZabcdefghijklmnopqrstuvwxyz0123456789_.-~"))
    chk.require(safe <= allowed_safe, "R2", "tough::CHARACTERS_TO_ESCAPE", "only-unreserved-unescaped",
                "characters %s pass through unescaped" % sorted(chr(c) for c in safe - allowed_safe))
    ctx = ctx_of(prog, ENCODE)
    if ctx is None:
        chk.anchor_missing("R2", ENCODE)
        return
    chk.analysed_body(ctx.body)
    calls = ctx.calls("percent_encoding::utf8_percent_encode")
    ok = len(calls) == 1
    if ok:
        bb, t = calls[0]
        setarg = ctx.origins.of_operand(t.args[1])
        ok = bool(setarg) and all(o.kind == "const" and (o.extra.j.get("def") == "tough::CHARACTERS_TO_ESCAPE" or
                                                        "CHARACTERS_TO_ESCAPE" in str(o.key)) for o in setarg)
        inp = ctx.origins.of_operand(t.args[0])
        ok = ok and bool(inp) and all(o.kind == "param" for o in inp)
        ret = ctx.origins.of_local(0)
        ok = ok and bool(ret) and all(o.kind == "call" and o.key[0] == bb for o in ret)
    chk.require(ok, "R2", ctx.fn, "applies-the-escape-set",
                "encode_filename is not exactly utf8_percent_encode(name, &CHARACTERS_TO_ESCAPE).to_string()")
    allowed = ("core::convert::AsRef::as_ref", "percent_encoding::utf8_percent_encode", "alloc::string::ToString::to_string")
    extra = sorted(set(t.callee for bb, t in ctx.body.calls() if not t.is_call_to(*allowed)))
    chk.require(not extra, "R2", ctx.fn, "nothing-but-encoding",
                "encode_filename does more than percent-encode its input (%s): any shortening, trimming or case folding "
                "of the encoded name makes two role names share one file name" % extra[:4])


def r3_no_decoding(chk, prog):
    bad = []
    for b in prog.bodies.values():
        if "/.cargo/" in b.file or not (b.path.startswith("tough::") or b.path.startswith("<tough::")):
            continue
        for bb, t in b.calls():
            if t.is_call_to("url::Url::to_file_path", "percent_encoding::percent_decode", "percent_encoding::percent_decode_str"):
                bad.append((b, t))
    for b, t in bad:
        chk.fail("R3", short_fn(b.path), "percent-decoding", "a URL is percent-decoded on its way to the file system: "
                 "an encoded role name ('..%2F') would turn back into a traversal", site_of(t.sp))
    if not bad:
        chk.ok("R3", "tough", "no-percent-decoding")
    impls = [b for b in prog.bodies.values() if b.path.endswith("SafeUrlPath>::safe_url_filepath")]
    if not chk.require(len(impls) >= 1, "R3", "tough::urlpath", "safe_url_filepath-impl", "anchor-missing: SafeUrlPath impl"):
        return
    ctx = ctx_of(prog, impls[0].path)
    chk.analysed_body(ctx.body)
    ret = deep_origins(ctx, _ret_operand(ctx), 4) if _ret_operand(ctx) is not None else set()
    ok = any(is_call(o, "url::Url::path") for o in ret) and not any(
        o.kind == "call" and ("decode" in o.key[1] or "to_file_path" in o.key[1]) for o in ret)
    chk.require(ok, "R3", ctx.fn, "path-without-decoding", "safe_url_filepath is not PathBuf::from(self.path())")
    # the file transport uses it
    ft = async_body(prog, "<tough::transport::FilesystemTransport as tough::transport::Transport>::fetch")
    if ft is not None:
        uses = [1 for b in body_family(prog, ft.body.path) for bb, t in b.calls() if t.is_call_to("tough::urlpath::SafeUrlPath::safe_url_filepath")]
        chk.require(bool(uses), "R3", ft.fn, "file-transport-uses-safe-path",
                    "FilesystemTransport does not derive the path with safe_url_filepath")


def _ret_operand(ctx):
    for b in ctx.body.blocks:
        t = b.term
        if t is not None and t.k == "call" and t.dest.local == 0:
            class O:
                pass
            o = O()
            o.is_const = False
            o.place = t.dest
            o.k = "copy"
            return o
    return None


def r4_disjoint(chk, groups):
    """per directory and per consistent-snapshot mode: the delegated-role template must not overlap
    a fixed name of the same mode; one obligation per (directory, delegated template), keyed by the
    set of colliding fixed names so that a new collision is a new finding"""
    for g, items in groups.items():
        shapes = {}
        for sh, pieces, ctx, bb in items:
            shapes.setdefault(sh, (pieces, ctx, bb))
        deleg = [(sh, v) for sh, v in shapes.items() if "ENC" in sh]
        fixed = [(sh, v) for sh, v in shapes.items() if "ENC" not in sh]
        fixed_shapes = set(sh for sh, _ in fixed)

        def mode_of_fixed(sh):
            # X and VERSION"."X both present: X belongs to the non-consistent mode, VERSION.X to the consistent one
            if sh.startswith("VERSION") and ('"' + sh[len('VERSION".'):]) in fixed_shapes:
                return {"cs"}
            if ("VERSION\"." + sh[1:]) in fixed_shapes:
                return {"plain"}
            return {"cs", "plain"}
        for dsh, (dp, dctx, dbb) in sorted(deleg):
            dmode = "cs" if dsh.startswith("VERSION") else "plain"
            hits = []
            for fsh, (fp, fctx, fbb) in sorted(fixed):
                if dmode in mode_of_fixed(fsh) and overlaps(dp, fp):
                    hits.append(fsh.replace('"', ''))
            inst = "%s~{%s}" % (dsh.replace('"', ''), ",".join(hits))
            chk.require(not hits, "R4", g, inst if hits else dsh.replace('"', '') + "~{}",
                        "in the %s namespace (%s snapshots) the delegated-role file name %s can equal the fixed "
                        "name(s) %s: a delegated role with a suitably chosen name is fetched/stored/written under "
                        "another document's file name" % (g, "consistent" if dmode == "cs" else "non-consistent", dsh, hits),
                        dctx.site(dbb))
