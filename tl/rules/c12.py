"""C12 — signatures bind all content the client uses; roles cannot be swapped."""
from .common import *
from ..attrs import Attrs, serde_map
from . import c01

ROLES = {"tough::schema::Root": "root", "tough::schema::Snapshot": "snapshot",
         "tough::schema::Targets": "targets", "tough::schema::Timestamp": "timestamp"}
SKIP_OK = {("tough::schema::DelegatedRole", "targets"): "filled by the loader from the delegated role's own file, never parsed from the parent",
           ("tough::schema::DelegatedTargets", "name"): "editor-side helper, the name comes from the delegation entry"}
DESER_WITH_OK = {"de::deserialize_keys": "validates ids, returns the map unchanged (C13)",
                 "de::extra_skip_type": "removes only `_type` (re-emitted from the Rust type)"}


def type_graph(prog, roots):
    seen = set()
    work = list(roots)
    while work:
        p = work.pop()
        if p in seen:
            continue
        adt = prog.adts.get(p)
        if adt is None:
            continue
        seen.add(p)
        for v in adt["variants"]:
            for f in v["fields"]:
                if (p, f["n"]) in SKIP_OK:
                    continue        # never (de)serialised as part of the parent
                for m in f["mentions"]:
                    if m.startswith("tough::") and m not in seen:
                        work.append(m)
    return seen


def run(chk, prog):
    chk.rules_live = ["R1", "R2", "R3", "R4", "R5", "R6", "R7", "R8"]
    chk.explanation = (
        "Structural rules over the type graph reachable from the signed portion of the four role types "
        "(type-checked ADT facts joined with #[serde(..)] attributes parsed from the sources): what is "
        "verified is the canonical re-serialisation of the parsed object that is used afterwards "
        "(C01-R2), so every derived struct must re-emit exactly what it parsed: no asymmetric "
        "skip/with attributes, omission only for Option::is_none, a flattened catch-all map at every "
        "level, the role tag emitted from the Rust type with the input's `_type` removed from the "
        "catch-all (the canonical formatter keeps the last duplicate member), and the hand-written "
        "Serialize impls emit the original text they were parsed from. R6/R7: the canonical form "
        "that is signed keeps distinct values distinct as far as its rules can see: C11's formatter "
        "obligations (member map keyed by the exactly un-escaped key, strings written as NFC and "
        "nothing coarser, escape table, no float/whitespace paths) are re-evaluated here. R8: 'extra "
        "unrelated signature entries do not make the document unacceptable': C01's counting-loop "
        "obligations for both verifiers (an entry is recorded as seen only after it verified, nothing "
        "but the three named failures rejects).")
    chk.not_decided = ["single-point mutation outcomes as such", "injectivity of the canonical form beyond C11's rules"]
    chk.assumptions = ["serde-derive implements its documented attribute semantics"]
    attrs = Attrs(prog.facts_dir)
    graph = type_graph(prog, list(ROLES))
    chk.floor("graph", len(graph), 15, "types reachable from the signed portion")
    # R1 — shared with C01
    for vp in (c01.ROOT_VERIFY, c01.DELEG_VERIFY):
        vctx = ctx_of(prog, vp)
        if vctx is None:
            chk.anchor_missing("R1", vp)
            continue
        chk.analysed_body(vctx.body)
        sub = _Relabel(chk, "R1")
        c01.r2_message(sub, vctx)
    derived_ser = set(i["self_adt"] for i in prog.impls if i["derived"] and i["trait"] == "serde::ser::Serialize")
    derived_de = set(i["self_adt"] for i in prog.impls if i["derived"] and i["trait"] == "serde::de::Deserialize")
    manual_ser = set(i["self_adt"] for i in prog.impls if not i["derived"] and i["trait"] == "serde::ser::Serialize" and i["self_adt"])
    n_fields = 0
    for p in sorted(graph):
        adt = prog.adts[p]
        short = p.split("::")[-1]
        if p in manual_ser:
            continue
        if p not in derived_ser and p not in derived_de:
            continue
        item = attrs.type_item(p)
        if not chk.require(item is not None, "R2", p, "attributes-found",
                           "anchor-missing: no source item found for %s (macro-generated or cfg'd type in the signed portion)" % p):
            continue
        chk.require(p in derived_ser and p in derived_de, "R2", p, "both-derives",
                    "%s derives only one of Serialize/Deserialize" % p)
        containers = [item] if item["kind"] == "struct" else item["variants"]
        # R4 catch-all
        if item["kind"] == "struct" and len(item["fields"]) > 0 and item["fields"][0]["name"] != "0":
            has_extra = any("flatten" in serde_map(f["serde"]) and f["ty"].startswith("HashMap<String,") for f in item["fields"])
            chk.require(has_extra, "R4", p, "catch-all-map",
                        "%s has no #[serde(flatten)] HashMap<String, Value> field: members it does not know are "
                        "dropped when parsed, so the canonical form that is verified differs from what the signer "
                        "signed and a conforming document carrying an extra member here is rejected" % short,
                        "%s:%s" % (item["file"], item["line"]))
        elif item["kind"] == "enum" and any(v["fields"] and v["fields"][0]["name"] != "0" for v in item["variants"]):
            for v in item["variants"]:
                if not v["fields"]:
                    continue
                has_extra = any("flatten" in serde_map(f["serde"]) and f["ty"].startswith("HashMap<String,") for f in v["fields"])
                chk.require(has_extra, "R4", p, "catch-all-map:" + v["name"],
                            "variant %s::%s has no flattened catch-all map" % (short, v["name"]), "%s:%s" % (item["file"], item["line"]))
        # R2 field attributes
        for c in containers:
            for f in c["fields"]:
                n_fields += 1
                sm = serde_map(f["serde"])
                where = "%s:%s" % (item["file"], item["line"])
                fname = f["name"] if item["kind"] == "struct" else "%s.%s" % (c["name"], f["name"])
                for bad in ("skip_serializing", "skip_deserializing", "serialize_with", "with", "getter"):
                    chk.require(bad not in sm, "R2", p, "%s:no-%s" % (fname, bad),
                                "field %s.%s is #[serde(%s)]: what is verified (the re-serialisation) would differ "
                                "from what was parsed and is used" % (short, fname, bad), where)
                if "skip" in sm:
                    chk.require((p, f["name"]) in SKIP_OK, "R2", p, "%s:skip" % fname,
                                "field %s.%s is #[serde(skip)] but is not in the table of fields that are never read "
                                "from input" % (short, fname), where)
                if "skip_serializing_if" in sm:
                    pred = sm["skip_serializing_if"]
                    ok = pred == "Option::is_none" and f["ty"].startswith("Option<")
                    chk.require(ok, "R2", p, "%s:omitted-when" % fname,
                                "field %s.%s is omitted from the re-serialisation when %s: a signed document that "
                                "carries the member with that value (e.g. an empty object) no longer verifies"
                                % (short, fname, pred), where)
                if "default" in sm and "skip_serializing_if" not in sm:
                    chk.fail("R2", p, "%s:default-reemitted" % fname,
                             "field %s.%s is #[serde(default)] without omission: absent in the signed document but "
                             "present in the verified re-serialisation" % (short, fname), where)
                if "deserialize_with" in sm:
                    chk.require(sm["deserialize_with"] in DESER_WITH_OK, "R2", p, "%s:deserialize_with" % fname,
                                "field %s.%s is parsed with %s, which is not in the table of value-preserving "
                                "helpers" % (short, fname, sm["deserialize_with"]), where)
                if "rename" in sm or "alias" in sm:
                    pass
    chk.floor("R2", n_fields, 40, "fields of derived types in the signed portion")
    # R3 role tags
    tags = {}
    for p, want in ROLES.items():
        item = attrs.type_item(p)
        if item is None:
            chk.anchor_missing("R3", p)
            continue
        sm = serde_map(item["serde"])
        where = "%s:%s" % (item["file"], item["line"])
        chk.require(sm.get("tag") == "_type" and sm.get("rename") == want, "R3", p, "tag-from-rust-type",
                    "%s is not #[serde(tag = \"_type\", rename = %r)]: the role tag would not be bound to the Rust type "
                    "the document is parsed as" % (p, want), where)
        tags[p] = sm.get("rename")
        ex = [f for f in item["fields"] if "flatten" in serde_map(f["serde"]) and f["ty"].startswith("HashMap<String,")]
        ok = len(ex) == 1 and serde_map(ex[0]["serde"]).get("deserialize_with") == "de::extra_skip_type"
        chk.require(ok, "R3", p, "input-tag-removed-from-catch-all",
                    "%s's catch-all map is not parsed with de::extra_skip_type: the `_type` member of the INPUT stays "
                    "in the map, is re-emitted after the tag of the Rust type and wins in the canonical form, so a "
                    "document signed for another role verifies as this one when they share a key" % p, where)
        chk.require("deny_unknown_fields" not in sm, "R3", p, "unknown-members-kept", "%s denies unknown fields" % p, where)
    chk.require(len(set(tags.values())) == 4, "R3", "tough::schema", "distinct-tags", "role tags are not distinct: %s" % tags)
    # extra_skip_type removes exactly `_type`
    ectx = ctx_of(prog, "tough::schema::de::extra_skip_type")
    if ectx is None:
        chk.anchor_missing("R3", "tough::schema::de::extra_skip_type")
    else:
        chk.analysed_body(ectx.body)
        rms = ectx.calls("std::collections::hash::map::HashMap::remove")
        keys = [ectx.const_str_of(t.args[1]) for bb, t in rms]
        ins = ectx.calls("std::collections::hash::map::HashMap::insert", "std::collections::hash::map::HashMap::clear",
                         "std::collections::hash::map::HashMap::retain")
        chk.require(keys == ["_type"] and not ins, "R3", ectx.fn, "removes-only-_type",
                    "extra_skip_type changes the catch-all map otherwise than by removing `_type` (removes %s, other "
                    "mutations %d)" % (keys, len(ins)))
    r5_manual(chk, prog, graph, manual_ser)
    # R6: the canonical form that is signed/verified keeps distinct object members distinct — the
    # member map of the formatter is keyed by an exact un-escaping of the written key (shared with C11-R3)
    from . import c11
    c11.r3_ordering(_Relabel(chk, "R6"), prog)
    c11.r5_escapes(_Relabel(chk, "R7"), prog)
    c11.r6_strings(_Relabel(chk, "R7"), prog)
    c01.verifier(_Relabel(chk, "R8"), prog, c01.ROOT_VERIFY, "root")
    c01.verifier(_Relabel(chk, "R8"), prog, c01.DELEG_VERIFY, "delegations")


def r5_manual(chk, prog, graph, manual_ser):
    """hand-written Serialize impls in the graph emit the text they were parsed from"""
    specs = {
        "tough::schema::decoded::Decoded": ("original", "<tough::schema::decoded::Decoded<T> as serde::ser::Serialize>::serialize",
                                            "<tough::schema::decoded::Decoded<T> as serde::de::Deserialize<'de>>::deserialize"),
        "tough::schema::PathPattern": ("value", "<tough::schema::PathPattern as serde::ser::Serialize>::serialize", None),
        "tough::target_name::TargetName": ("raw", "<tough::target_name::TargetName as serde::ser::Serialize>::serialize", None),
    }
    in_graph = sorted(m for m in manual_ser if m in graph)
    chk.require(set(in_graph) <= set(specs), "R5", "tough::schema", "known-manual-impls",
                "hand-written Serialize impls in the signed portion: %s; not in the checked table: %s"
                % (in_graph, sorted(set(in_graph) - set(specs))))
    # hand-written Deserialize impls of types in (or used by) the signed portion accept every JSON spelling
    # of a string: they deserialize an owned String (or visit_str AND visit_string) — `<&str>::deserialize`
    # can only borrow strings without escape sequences and refuses "\u0041", "\/" .. (re-formatting by
    # another implementation must not make a document unacceptable)
    n_de = 0
    for b in prog.bodies.values():
        if "/.cargo/" in b.file or not b.crate.startswith("tough-"):
            continue
        if " as serde::de::Deserialize<'de>>::deserialize" not in b.path or "::_::" in b.path:
            continue
        n_de += 1
        chk.analysed_body(b)
        for bb, t in b.calls():
            r = t.resolved or ""
            borrowed = ("for &'a str>::deserialize" in r or "for &'a [u8]>::deserialize" in r
                        or (t.is_call_to("serde::de::Deserialize::deserialize") and t.generic_args[:1] in (["&str"], ["&[u8]"])))
            chk.require(not borrowed, "R5", short_fn(b.path), "accepts-escaped-strings",
                        "%s deserializes a borrowed &str: serde_json can lend a string only when it contains no escape "
                        "sequence, so a validly signed document that spells a value with \\uXXXX or \\/ is refused"
                        % short_fn(b.path), site_of(t.sp))
    chk.floor("R5-deserialize", n_de, 2, "hand-written Deserialize impls in tough (Decoded, TargetName, ..)")
    for adt, (field, ser_path, de_path) in specs.items():
        sctx = ctx_of(prog, ser_path)
        if sctx is None:
            chk.anchor_missing("R5", ser_path)
            continue
        chk.analysed_body(sctx.body)
        emitted = set()
        for bb, t in sctx.calls("serde::ser::Serializer::serialize_str"):
            emitted |= deep_origins(sctx, t.args[1], 4, stop=lambda o: o.kind == "param")
        flds = set(o.fields[:1] for o in emitted if o.kind == "param" and o.fields)
        calls = [o for o in emitted if o.kind == "call" and o.key[1].startswith("tough::")]
        via = set()
        for o in calls:
            cctx = ctx_of(prog, o.extra.resolved or o.extra.callee)
            if cctx is not None:
                for r in cctx.origins.of_local(0):
                    if r.kind == "param" and r.fields:
                        via.add(r.fields[:1])
        ok = (flds | via) == {(field,)}
        chk.require(ok, "R5", adt, "emits-original-text",
                    "%s serialises %s, expected exactly the stored input text `.%s`" % (adt, sorted(flds | via), field))
    # Decoded: the constructor used by Deserialize stores the input string unchanged in `original`
    dctx = ctx_of(prog, specs["tough::schema::decoded::Decoded"][2])
    if dctx is None:
        chk.anchor_missing("R5", "Decoded::deserialize")
        return
    chk.analysed_body(dctx.body)
    found = False
    for b in body_family(prog, dctx.body.path) + [dctx.body]:
        c = ctx_of(prog, b.path)
        for blk in b.blocks:
            for s in blk.stmts:
                if s.k == "assign" and s.rv.k == "agg" and s.rv.j.get("adt") == "tough::schema::decoded::Decoded":
                    found = True
                    names = s.rv.j["fields"]
                    og = c.origins.of_operand(s.rv.ops[names.index("original")])
                    by = deep_origins(c, s.rv.ops[names.index("bytes")], 3)
                    ok = only_calls(og, "serde::de::Deserialize::deserialize") or all(o.kind in ("param", "upvar") for o in og)
                    chk.require(ok and bool(og), "R5", "tough::schema::decoded::Decoded", "original-is-input-text",
                                "Decoded.original is not the string that was parsed: %s" % sorted(map(repr, og)), site_of(s.sp))
                    chk.require(any(is_call(o, "tough::schema::decoded::Decode::decode") for o in by), "R5",
                                "tough::schema::decoded::Decoded", "bytes-decoded-from-same-text",
                                "Decoded.bytes is not T::decode(<the same text>)", site_of(s.sp))
    chk.require(found, "R5", "tough::schema::decoded::Decoded", "constructed-in-deserialize",
                "unrecognised-idiom: Decoded is not constructed in its Deserialize impl")


class _Relabel:
    def __init__(self, chk, rule):
        self.chk = chk
        self.rule = rule

    def __getattr__(self, n):
        return getattr(self.chk, n)

    def require(self, cond, rule, *a, **k):
        return self.chk.require(cond, self.rule, *a, **k)

    def fail(self, rule, *a, **k):
        return self.chk.fail(self.rule, *a, **k)

    def ok(self, rule, *a, **k):
        return self.chk.ok(self.rule, *a, **k)

    def anchor_missing(self, rule, *a, **k):
        return self.chk.anchor_missing(self.rule, *a, **k)
