"""C04 — freeze protection: expired metadata is never trusted while enforcement is on."""
from .common import *
from .c03 import fetched_origin, CREATE, BYTES

CHECK_EXPIRED = "tough::check_expired"
SYSTEM_TIME = "tough::datastore::Datastore::system_time"
ENF = "tough::ExpirationEnforcement"
SITES = ["tough::load_root", "tough::load_timestamp", "tough::load_snapshot", "tough::load_targets"]


def enforcement_off_edges(ctx, enf_pred):
    """edges taken when enforcement is not `Safe`; enf_pred(origin) recognises the enforcement
    setting. Returns (edges, n_tests, problems)"""
    U = []
    n = 0
    problems = []
    for (bb, op, a, b, tr, sp) in ctx.comparisons():
        if op not in ("eq", "ne"):
            continue
        oa, ob = ctx.origins.of_operand(a), ctx.origins.of_operand(b)
        ea = oa and all(enf_pred(o) for o in oa)
        eb = ob and all(enf_pred(o) for o in ob)
        if not (ea or eb):
            continue
        other = ob if ea else oa
        variants = set()
        for o in other:
            if o.kind == "agg" and o.key[2].startswith(ENF + "::"):
                variants.add(o.key[2].split("::")[-1])
            elif o.kind == "const" and isinstance(o.key, str) and ENF in o.key:
                variants.add(o.key.split("::")[-1])
            else:
                variants.add("?")
        if variants == {"Safe"}:
            off = tr.neg_edges(0) if op == "eq" else tr.pos_edges(0)
        elif variants == {"Unsafe"}:
            off = tr.pos_edges(0) if op == "eq" else tr.neg_edges(0)
        else:
            problems.append((site_of(sp), "enforcement compared with %s" % sorted(variants)))
            continue
        n += 1
        U.extend(off)
    # `match enforcement { Safe => .., Unsafe => .. }`
    for b in ctx.body.blocks:
        if b.cleanup:
            continue
        for s in b.stmts:
            if s.k == "assign" and s.rv.k == "discr" and s.rv.j.get("adt") == ENF:
                og = ctx.origins.of_place(s.rv.place)
                if og and all(enf_pred(o) for o in og):
                    tr = ctx.tracker
                    for sw in tr._switch_on(s.place.local, b.idx):
                        n += 1
                        vars_ = s.rv.j["vars"]
                        listed = set()
                        for v, d in sw.term.tv:
                            nm = vars_.get(str(v))
                            listed.add(nm)
                            if nm != "Safe":
                                U.append((sw.idx, d, v))
                        if "Safe" in listed and ctx.body.blocks[sw.term.otherwise].term.k != "unreachable":
                            U.append((sw.idx, sw.term.otherwise, "otherwise"))
    return U, n, problems


def is_enf_origin(ctx):
    def pred(o):
        if o.kind in ("upvar", "param"):
            return "enforcement" in str(o.key[1]) or o.fields[-1:] == ("expiration_enforcement",)
        return False
    return pred


def run(chk, prog):
    chk.rules_live = ["R1", "R2", "R3", "R4", "R5", "R6"]
    chk.explanation = (
        "Must-pass-through rules over MIR: in load_root/load_timestamp/load_snapshot/load_targets "
        "the Ok return (and the datastore write) is unreachable once the 'enforcement is not Safe' "
        "edges and the Ok edge of check_expired(<returned document>.signed) are removed; "
        "check_expired succeeds only through the edge time <= expires with time from "
        "Datastore::system_time; read_target reaches find_target/fetch_target only through "
        "time < earliest_expiration (or enforcement off); earliest_expiration is the minimum over "
        "the four loaded documents; system_time refuses a clock earlier than the recorded one and "
        "is the only caller of Utc::now.")
    chk.not_decided = ["the system clock itself", "second-granularity boundary (<= vs <)",
                       "chrono's DateTime ordering"]
    chk.assumptions = ["chrono::DateTime comparison and Utc::now behave as documented"]
    n = 0
    for fn in SITES:
        ctx = async_body(prog, fn)
        if ctx is None:
            chk.anchor_missing("R1", fn)
            continue
        chk.analysed_body(ctx.body)
        f = ctx.fn
        fetched = fetched_origin(ctx)
        U, ntests, problems = enforcement_off_edges(ctx, is_enf_origin(ctx))
        for site, msg in problems:
            chk.fail("R1", f, "enforcement-test", "unrecognised-idiom: " + msg, site)
        K = []
        ksites = []
        for bb, t in ctx.calls(CHECK_EXPIRED):
            og = ctx.origins.of_operand(t.args[1])
            if og and all(base(o) in fetched and o.fields == ("signed",) for o in og):
                K.extend(ctx.track_call(bb).pos_edges(0))
                ksites.append(bb)
        if not ksites:
            chk.fail("R1", f, "expiry-check", "no check_expired(..) on the returned document: an expired "
                     "%s would be trusted with enforcement on" % f.split("::")[-1].replace("load_", ""))
            continue
        n += 1
        okb = ctx.ok_return_blocks()
        path = ctx.cfg.witness_path(okb, set(U) | set(K))
        chk.require(path is None and bool(K), "R1", f, "ok-needs-expiry-check",
                    "Ok is returned on a path that neither has enforcement switched off nor passes the "
                    "Ok edge of check_expired on the returned document", ctx.site(ksites[0]),
                    detail="enforcement tests=%d" % ntests, path=ctx.describe_path(path))
        creates = [bb for bb, _ in ctx.calls(CREATE)]
        if creates:
            p2 = ctx.cfg.witness_path(creates, set(U) | set(K))
            chk.require(p2 is None, "R1", f, "persist-needs-expiry-check",
                        "the document is persisted on a path without the expiry check (enforcement on)",
                        ctx.site(creates[0]), path=ctx.describe_path(p2))
        # with enforcement OFF nothing may fail for expiry: check_expired must be reachable only via Safe edges
        safe_only = ctx.cfg.reach((0,), set(_safe_edges(ctx, U)))
        internal = check_expired_tests_enforcement(prog)
        unguarded = []
        for kb in ksites:
            if kb not in safe_only:
                continue
            t = ctx.body.blocks[kb].term
            passes = any(bool(ctx.origins.of_operand(a)) and all(is_enf_origin(ctx)(o) for o in ctx.origins.of_operand(a))
                         for a in t.args[2:])
            if internal and passes:
                # check_expired(.., enforcement) makes the decision itself (R2 checks it does, before touching the clock)
                U = list(U) + list(ctx.track_call(kb).pos_edges(0))
                continue
            unguarded.append(kb)
        chk.require(not unguarded, "R1", f, "off-means-off",
                    "check_expired is reachable with enforcement switched off", ctx.site(ksites[0]))
        if fn == "tough::load_root":
            loops = ctx.cfg.sccs()
            inloop = any(bb in comp for comp in loops for bb in ksites)
            chk.require(not inloop, "R1", f, "final-root-only",
                        "check_expired is called inside the root-update loop: an expired stepping-stone "
                        "root would abort the chain walk", ctx.site(ksites[0]))
    chk.floor("R1", n, 4, "expiry-checked loaders")
    r2_check_expired(chk, prog)
    r3_read_target(chk, prog)
    r4_earliest(chk, prog)
    r5_system_time(chk, prog)
    r6_default_is_on(chk, prog)


def _safe_edges(ctx, U):
    """the sibling edges of U (taken when enforcement IS Safe)"""
    out = []
    srcs = set(e[0] for e in U)
    for s in srcs:
        for e in ctx.cfg.succ[s]:
            if e not in U:
                out.append(e)
    return out


def check_expired_tests_enforcement(prog):
    ctx = async_body(prog, CHECK_EXPIRED)
    if ctx is None:
        return False
    U, n, probs = enforcement_off_edges(ctx, is_enf_origin(ctx))
    return bool(U) and not probs


def r2_check_expired(chk, prog):
    ctx = async_body(prog, CHECK_EXPIRED)
    if ctx is None:
        chk.anchor_missing("R2", CHECK_EXPIRED)
        return
    chk.analysed_body(ctx.body)
    T = []
    for (bb, op, a, b, tr, sp) in ctx.comparisons():
        oa, ob = ctx.origins.of_operand(a), ctx.origins.of_operand(b)
        a_time = only_calls(oa, SYSTEM_TIME)
        b_time = only_calls(ob, SYSTEM_TIME)
        a_exp = only_calls(oa, "tough::schema::Role::expires")
        b_exp = only_calls(ob, "tough::schema::Role::expires")
        if a_time and b_exp:
            edges, strict = normalise_le(op, True, tr)
        elif a_exp and b_time:
            edges, strict = normalise_le(op, False, tr)
        else:
            continue
        if edges:
            T.extend(edges)
    okb = ctx.ok_return_blocks()
    Uce, nt, probs = enforcement_off_edges(ctx, is_enf_origin(ctx))
    for site, msg in probs:
        chk.fail("R2", ctx.fn, "enforcement-test", "unrecognised-idiom: " + msg, site)
    if Uce:
        # the enforcement test lives inside check_expired: with enforcement off nothing of it may run
        # (the clock is not even sampled: system_time() fails on a clock that stepped backward)
        safe_only = ctx.cfg.reach((0,), set(_safe_edges(ctx, Uce)))
        clock = [bb for bb, _ in ctx.calls(SYSTEM_TIME)]
        chk.require(not (set(clock) & safe_only), "R2", ctx.fn, "off-means-off",
                    "check_expired samples the clock (which can fail) although enforcement is switched off",
                    ctx.site(clock[0]) if clock else None)
    path = ctx.cfg.witness_path(okb, list(T) + list(Uce))
    chk.require(bool(T) and path is None, "R2", ctx.fn, "time-le-expires",
                "check_expired returns Ok on a path that does not pass the edge on which "
                "system_time() <= role.expires() holds", site_of(ctx.body.span), path=ctx.describe_path(path))
    # the role whose expiry is read is the parameter
    ok = False
    for bb, t in ctx.calls("tough::schema::Role::expires"):
        og = ctx.origins.of_operand(t.args[0])
        ok = bool(og) and all(o.kind in ("upvar", "param") and o.key[1] == "role" for o in og)
    chk.require(ok, "R2", ctx.fn, "expires-of-param", "expires() is not read from the `role` argument")
    # system_time errors propagate (the `?`): its Err edge must not reach Ok
    for bb, t in ctx.calls(SYSTEM_TIME):
        neg = ctx.track_call(bb).neg_edges(0)
        r = ctx.cfg.reach_from_edges(neg) if neg else set()
        chk.require(bool(neg) and not (r & set(okb)), "R2", ctx.fn, "clock-error-propagates",
                    "a failing system_time() (clock stepped backward) does not make check_expired fail",
                    ctx.site(bb))


def r3_read_target(chk, prog):
    ctx = async_body(prog, "tough::Repository::read_target")
    if ctx is None:
        chk.anchor_missing("R3", "tough::Repository::read_target")
        return
    chk.analysed_body(ctx.body)
    enf = lambda o: o.kind in ("upvar", "param") and o.fields[-1:] == ("expiration_enforcement",)
    U, ntests, problems = enforcement_off_edges(ctx, enf)
    for site, msg in problems:
        chk.fail("R3", ctx.fn, "enforcement-test", "unrecognised-idiom: " + msg, site)
    T = []
    for (bb, op, a, b, tr, sp) in ctx.comparisons():
        oa, ob = ctx.origins.of_operand(a), ctx.origins.of_operand(b)
        a_time = only_calls(oa, SYSTEM_TIME)
        b_time = only_calls(ob, SYSTEM_TIME)
        is_ee = lambda og: bool(og) and all(o.kind in ("upvar", "param") and o.fields[-1:] == ("earliest_expiration",) for o in og)
        if a_time and is_ee(ob):
            edges, strict = normalise_le(op, True, tr)
        elif is_ee(oa) and b_time:
            edges, strict = normalise_le(op, False, tr)
        else:
            continue
        if edges:
            T.extend(edges)
    # with enforcement off nothing about time may fail the read: the clock is only consulted on the Safe side
    st = [bb for bb, _ in ctx.calls(SYSTEM_TIME)]
    off_reach = ctx.cfg.reach((0,), set(_safe_edges(ctx, U)))
    chk.require(bool(st) and not (set(st) & off_reach), "R3", ctx.fn, "off-means-off",
                "read_target consults the clock (and can fail on it) although enforcement is switched off")
    targets = [bb for bb, _ in ctx.calls("tough::schema::Targets::find_target", "tough::cache::<impl tough::Repository>::fetch_target")]
    chk.floor("R3", len(targets), 2, "find_target/fetch_target calls in read_target")
    path = ctx.cfg.witness_path(targets, set(U) | set(T))
    chk.require(bool(T) and path is None, "R3", ctx.fn, "expiry-before-fetch",
                "read_target reaches find_target/fetch_target without passing time < earliest_expiration "
                "(enforcement on)", site_of(ctx.body.span), detail="tests=%d" % ntests, path=ctx.describe_path(path))
    # fetch_target is only called from read_target (save_target and cache go through it)
    callers = set()
    for b in prog.bodies.values():
        if not b.path.startswith("tough::"):
            continue
        for bb, t in b.calls():
            if t.is_call_to("tough::cache::<impl tough::Repository>::fetch_target"):
                callers.add(short_fn(b.path))
    chk.require(callers == {"tough::Repository::read_target"}, "R3", "tough", "who-may-call-fetch_target",
                "fetch_target is called from %s; only read_target (which checks expiry) may" % sorted(callers))


def r4_earliest(chk, prog):
    ctx = async_body(prog, "tough::Repository::load")
    if ctx is None:
        chk.anchor_missing("R4", "tough::Repository::load")
        return
    chk.analysed_body(ctx.body)
    found = False
    for b in ctx.body.blocks:
        if b.cleanup:
            continue
        for s in b.stmts:
            if s.k == "assign" and s.rv.k == "agg" and s.rv.j.get("adt") == "tough::Repository":
                found = True
                names = s.rv.j["fields"]
                op = s.rv.ops[names.index("earliest_expiration")]
                og = ctx.origins.of_operand(op)
                mins = [o for o in og if o.kind == "call" and (
                    path_match(o.key[1], "core::iter::traits::iterator::Iterator::min_by_key")
                    or path_match(o.key[1], "core::iter::traits::iterator::Iterator::min"))]
                chk.require(len(mins) == len(og) and bool(og), "R4", ctx.fn, "earliest-is-minimum",
                            "Repository.earliest_expiration does not originate from Iterator::min_by_key/min: %s"
                            % sorted(map(repr, og)), site_of(s.sp))
                deep = deep_origins(ctx, op, depth=6)
                srcs = set()
                for o in deep:
                    if o.kind == "call" and o.fields[-2:] == ("signed", "expires"):
                        srcs.add(o.key[1].split("::")[-1])
                want = {"load_root", "load_timestamp", "load_snapshot", "load_targets"}
                chk.require(want <= srcs, "R4", ctx.fn, "all-four-roles",
                            "earliest_expiration is computed over the expirations of %s; missing %s"
                            % (sorted(srcs), sorted(want - srcs)), site_of(s.sp))
    if not found:
        chk.anchor_missing("R4", "construction of tough::Repository in Repository::load")


def r5_system_time(chk, prog):
    ctx = async_body(prog, SYSTEM_TIME)
    if ctx is None:
        chk.anchor_missing("R5", SYSTEM_TIME)
        return
    chk.analysed_body(ctx.body)
    NOW = "chrono::offset::utc::Utc::now"
    S = []
    stored = []
    for bb, t in ctx.calls(BYTES):
        tr = ctx.track_call(bb)
        S.extend(tr.all_neg_edges())
        stored.append(bb)
    T = []
    for (bb, op, a, b, tr, sp) in ctx.comparisons():
        oa, ob = ctx.origins.of_operand(a), ctx.origins.of_operand(b)
        a_now, b_now = only_calls(oa, NOW), only_calls(ob, NOW)
        from_store = lambda og: bool(og) and all(o.kind == "call" and (
            path_match(o.key[1], "core::option::Option::map") or any(path_match(o.key[1], p) for p in SER_PARSE)) for o in og)
        if from_store(oa) and b_now:
            edges, _ = normalise_le(op, True, tr)
        elif a_now and from_store(ob):
            edges, _ = normalise_le(op, False, tr)
        else:
            continue
        if edges:
            T.extend(edges)
    okb = ctx.ok_return_blocks()
    path = ctx.cfg.witness_path(okb, set(S) | set(T))
    chk.require(bool(stored) and bool(T) and path is None, "R5", ctx.fn, "monotonic-guard",
                "system_time returns Ok although the sampled clock is earlier than the recorded "
                "latest known time (no recorded <= now edge on the path)", site_of(ctx.body.span),
                path=ctx.describe_path(path))
    # the returned time is the sampled one, and it is recorded
    ret = fetched_origin(ctx)
    chk.require(only_calls(ret, NOW), "R5", ctx.fn, "returns-sampled-time",
                "system_time returns %s, not the sampled Utc::now()" % sorted(map(repr, ret)))
    rec = [bb for bb, t in ctx.calls(CREATE) if only_calls(ctx.origins.of_operand(t.args[2]), NOW)]
    chk.require(bool(rec), "R5", ctx.fn, "records-time", "the sampled time is not recorded in the datastore")
    p4 = ctx.cfg.witness_path(rec, set(S) | set(T))
    chk.require(p4 is None, "R5", ctx.fn, "records-only-after-guard",
                "the sampled time is recorded before/without the went-backwards guard: a clock that stepped "
                "back overwrites the latest known time, so the next attempt is judged against the earlier clock",
                ctx.site(rec[0]) if rec else None, path=ctx.describe_path(p4))
    # "metadata that is not expired is never rejected as expired": the expiry error is raised at exactly
    # the two sites that compare against the guarded clock, nowhere else
    sites = {}
    for b in prog.bodies.values():
        if "/.cargo/" in b.file or not b.path.startswith("tough::") or b.path.startswith("tough::error::"):
            continue            # (the snafu-generated selector impls in error.rs build the variant from the selector)
        for blk in b.blocks:
            if blk.cleanup:
                continue
            for s_ in blk.stmts:
                if s_.k == "assign" and s_.rv.k == "agg" and s_.rv.j.get("adt") in (
                        "tough::error::ExpiredMetadataSnafu",) or (
                        s_.k == "assign" and s_.rv.k == "agg" and s_.rv.j.get("adt") == "tough::error::Error" and s_.rv.j.get("variant") == "ExpiredMetadata"):
                    sites.setdefault(root_fn(b.path), []).append(blk.idx)
    want = {"tough::check_expired", "tough::Repository::read_target"}
    chk.require(set(sites) == want and all(len(v) == 1 for v in sites.values()), "R5", "tough", "who-raises-expired",
                "ExpiredMetadata is raised in %s; only check_expired and read_target (each once, on the failing edge of "
                "their clock comparison) may: any other site rejects metadata as expired that is not" % sorted(sites))
    for fn_ in want & set(sites):
        c2 = async_body(prog, fn_)
        if c2 is None:
            continue
        hold = []
        for (bb, op, a, b_, tr, sp) in c2.comparisons():
            if any(is_call(o, SYSTEM_TIME) for o in c2.origins.of_operand(a) | c2.origins.of_operand(b_)):
                hold.extend(tr.pos_edges(0) + tr.neg_edges(0))
        # the error is constructed only behind one outcome of the clock comparison
        errb = sites[fn_]
        p5 = c2.cfg.witness_path(errb, hold)
        chk.require(bool(hold) and p5 is None, "R5", c2.fn, "expired-only-after-clock-comparison",
                    "ExpiredMetadata can be raised without the clock having been compared with the expiry", path=c2.describe_path(p5))
    # who may call Utc::now in tough
    callers = set()
    for b in prog.bodies.values():
        if not b.path.startswith("tough::") and not b.path.startswith("<tough::"):
            continue
        for bb, t in b.calls():
            if t.is_call_to(NOW, "chrono::offset::local::Local::now", "std::time::SystemTime::now"):
                callers.add(short_fn(b.path))
    chk.require(callers == {SYSTEM_TIME}, "R5", "tough", "who-may-call-now",
                "the wall clock is read in %s; only Datastore::system_time (which guards against a clock "
                "stepping backwards) may" % sorted(callers))


def r6_default_is_on(chk, prog):
    """'enforcement on (the default)': ExpirationEnforcement::default() is Safe, and a loader without an
    explicit setting gets that default"""
    D = "<tough::ExpirationEnforcement as core::default::Default>::default"
    ctx = ctx_of(prog, D)
    if ctx is None:
        # #[derive(Default)] with #[default] on a variant has no user body: the derive's body is in the facts too
        chk.anchor_missing("R6", D)
        return
    chk.analysed_body(ctx.body)
    ret = ctx.origins.of_local(0)
    chk.require(bool(ret) and all(o.kind == "agg" and str(o.key[2]) == ENF + "::Safe" for o in ret), "R6", ctx.fn,
                "default-is-safe", "ExpirationEnforcement::default() is %s: a client that does not choose gets no "
                "freeze protection" % sorted(map(repr, ret)))
    lc = async_body(prog, "tough::Repository::load")
    if lc is None:
        chk.anchor_missing("R6", "tough::Repository::load")
        return
    chk.analysed_body(lc.body)
    n = 0
    for fn in SITES:
        for bb, t in lc.calls(fn):
            n += 1
            a = t.args[-1]
            og = lc.origins.of_operand(a)
            good = bool(og)
            for o in og:
                if o.kind in ("upvar", "param") and o.fields[-1:] == ("expiration_enforcement",):
                    continue
                if o.kind == "agg" and str(o.key[2]) == ENF + "::Safe":
                    continue
                if is_call(o, D, "core::default::Default::default"):
                    continue
                good = False
            # how the Option is unwrapped
            un = [tt for _, tt in lc.calls("core::option::Option::unwrap_or_default", "core::option::Option::unwrap_or",
                                           "core::option::Option::unwrap_or_else")
                  if any(x.fields[-1:] == ("expiration_enforcement",) for x in lc.origins.of_operand(tt.args[0]))]
            for tt in un:
                if tt.is_call_to("core::option::Option::unwrap_or"):
                    dflt = lc.origins.of_operand(tt.args[1])
                    good = good and bool(dflt) and all(x.kind == "agg" and str(x.key[2]) == ENF + "::Safe" or is_call(x, D) for x in dflt)
            chk.require(good, "R6", lc.fn, "unset-means-default:" + fn.split("::")[-1],
                        "the enforcement setting handed to %s does not come from the loader's setting with the Safe "
                        "default: %s" % (fn, sorted(map(repr, og))), lc.site(bb))
    chk.floor("R6", n, 4, "loader calls in Repository::load")
