"""C20 — tuftool root subcommands keep root.json well-formed, without stale signatures."""
from .common import *

WRITE_FILE = "tuftool::write_file"
LOAD_FILE = "tuftool::load_file"
CLEAR = "tuftool::root::clear_sigs"
ROOT_VERIFY = "tough::schema::verify::<impl tough::schema::Root>::verify_role"


def run(chk, prog):
    chk.rules_live = ["R1", "R2", "R3", "R4", "R5", "R6", "R7", "R8", "R9"]
    chk.explanation = (
        "Must-pass-through / who-may-write rules over the MIR of tuftool::root: every subcommand that "
        "writes a root loaded from disk reaches write_file only through clear_sigs on that very root "
        "(init writes a literal with an empty signature list); the only file-system effects in "
        "root.rs/write_file are temp-file-in-the-parent-directory + persist; keys are inserted under "
        "key.key_id(); `sign` persists only through its threshold tests (or --ignore-threshold).")
    chk.not_decided = ["CLI parsing", "command sequences as such (each subcommand is decided separately; a "
                       "sequence of commands that each keep the invariant keeps it)"]
    chk.assumptions = ["NamedTempFile::persist is an atomic rename"]
    bodies = [b for b in prog.bodies.values() if b.path.startswith("tuftool::root::Command::") and
              b.path.endswith("::{closure#0}") and b.coroutine]
    n_loaded = 0
    n_writers = 0
    for b in sorted(bodies, key=lambda x: x.path):
        ctx = ctx_of(prog, b.path)
        writes = ctx.calls(WRITE_FILE)
        if not writes:
            continue
        chk.analysed_body(b)
        f = ctx.fn
        n_writers += 1
        for bb, t in writes:
            val = ctx.origins.of_operand(t.args[1])
            loaded = [o for o in val if is_call(o, LOAD_FILE)]
            if loaded:
                n_loaded += 1
                clears = [cb for cb, ct in ctx.calls(CLEAR)
                          if ctx.origins.of_operand(ct.args[0]) == set(loaded) or
                          set(loaded) <= ctx.origins.of_operand(ct.args[0])]
                p = ctx.cfg.witness_path([bb], (), removed_blocks=clears)
                chk.require(bool(clears) and p is None, "R1", f, "signatures-cleared-before-write",
                            "a root.json loaded from disk is modified and written back on a path that does not "
                            "clear its signatures: stale signatures over different content would remain",
                            ctx.site(bb), path=ctx.describe_path(p))
            else:
                # a literal: signatures must be an empty list
                ok = False
                for o in val:
                    if o.kind == "agg" and o.key[2].startswith("tough::schema::Signed"):
                        s = o.extra
                        names = s.rv.j["fields"]
                        sg = ctx.origins.of_operand(s.rv.ops[names.index("signatures")])
                        ok = only_calls(sg, "alloc::vec::Vec::new")
                chk.require(ok, "R1", f, "fresh-root-has-no-signatures",
                            "a freshly constructed root is written with a signature list that is not Vec::new()", ctx.site(bb))
            # write_file is the last thing that can fail: once root.json has been replaced the command must
            # not still end in an error ('a subcommand that exits with an error leaves the previous file
            # intact') — no `?`, no unwrap/expect, no println! (it panics when stdout cannot be written)
            pos = ctx.track_call(bb).pos_edges(0)
            if pos:
                after = ctx.cfg.reach_from_edges(pos)
                FALLIBLE = ("std::io::stdio::_print", "std::io::stdio::_eprint", "core::result::Result::unwrap",
                            "core::result::Result::expect", "core::option::Option::unwrap", "core::option::Option::expect",
                            "core::panicking::panic", "core::panicking::panic_fmt", "core::result::unwrap_failed",
                            "core::ops::try_trait::FromResidual::from_residual")
                bad = [(ab, ctx.body.blocks[ab].term) for ab in sorted(after)
                       if ctx.body.blocks[ab].term is not None and ctx.body.blocks[ab].term.k == "call"
                       and ctx.body.blocks[ab].term.is_call_to(*FALLIBLE)]
                chk.require(not bad, "R1", f, "nothing-fails-after-the-write",
                            "after root.json has been replaced the subcommand can still fail or panic (%s): it would exit "
                            "with an error although the file was changed"
                            % sorted(set((t_.resolved or t_.callee or "?").split("::")[-1] for _, t_ in bad))[:3],
                            ctx.site(bad[0][0]) if bad else ctx.site(bb))
    chk.floor("R1", n_loaded, 7, "subcommands that write back a loaded root")
    # clear_sigs really clears
    cctx = ctx_of(prog, CLEAR)
    if cctx is None:
        chk.anchor_missing("R1", CLEAR)
    else:
        chk.analysed_body(cctx.body)
        cl = [t for bb, t in cctx.calls("alloc::vec::Vec::clear")
              if all(o.kind == "param" and o.fields == ("signatures",) for o in cctx.origins.of_operand(t.args[0]))]
        chk.require(len(cl) == 1, "R1", cctx.fn, "clears-signatures", "clear_sigs does not call role.signatures.clear()")
    r2_effects(chk, prog)
    r3_keyids(chk, prog)
    r4_sign(chk, prog)
    r6_old_signatures(chk, prog)
    # R7: 'the result verifies under its own keys' (R4) means what Root::verify_role means: C01's
    # verifier obligations for it are re-evaluated here
    from .c06 import SubCheck
    from . import c01
    c01.verifier(SubCheck(chk, "R7"), prog, c01.ROOT_VERIFY, "root")
    # R8: `sign` attaches signatures of an algorithm Root::verify_role (Key::verify) checks with
    c01.signer_verifier_agreement(chk, prog, "R8")
    # R9: `sign` counts signatures (D12): at least every signature SignedRole::new attaches is by a key the
    # root lists for the root role
    from . import c10
    c10.r19_signs_only_with_role_keys(chk, prog, "R9")


def r2_effects(chk, prog):
    fams = [b for b in prog.bodies.values() if b.path.startswith("tuftool::root::") or b.path.startswith("tuftool::write_file")]
    effects = []
    for b in fams:
        for bb, t in b.calls():
            for n in FS_ALL_MUTATING:
                if t.is_call_to(n):
                    effects.append((b, bb, t, n))
                    break
    for b, bb, t, n in effects:
        ok = n in FS_TEMP_NEW + FS_PERSIST
        chk.require(ok, "R2", short_fn(b.path), "effect:" + n.split("::")[-1],
                    "root.json is touched by %s: a failing subcommand could leave a partial or destroyed file" % n, site_of(t.sp))
    chk.floor("R2", len(effects), 4, "temp/persist effects in root.rs + write_file")
    # in each writer: temp in parent(path), persist onto path, persist after successful write
    for root_fn in ("tuftool::write_file", "tuftool::root::Command::sign"):
        actx = async_body(prog, root_fn)
        if actx is None:
            chk.anchor_missing("R2", root_fn)
            continue
        for b in body_family(prog, actx.body.path):
            ctx = ctx_of(prog, b.path)
            persists = ctx.calls(*FS_PERSIST)
            if not persists:
                continue
            chk.analysed_body(b)

            def resolve(og):
                out = set()
                for o in og:
                    if o.kind == "upvar" and ctx is not actx:
                        _, src = upvar_source(prog, ctx, o.key[0])
                        out |= src
                    else:
                        out.add(o)
                return out
            for bb, t in ctx.calls(*FS_TEMP_NEW):
                og = resolve(ctx.origins.of_operand(t.args[0]))
                chk.require(only_calls(og, "std::path::Path::parent"), "R2", actx.fn, "temp-in-parent-dir",
                            "the temporary file is not created in the parent directory of root.json: %s" % sorted(map(repr, og)), ctx.site(bb))
            for bb, t in persists:
                og = resolve(ctx.origins.of_operand(t.args[1]))
                ok = bool(og) and all(o.kind in ("upvar", "param") and o.key[1] == "path" for o in og)
                chk.require(ok, "R2", actx.fn, "persist-onto-path", "persist() does not rename onto `path`: %s" % sorted(map(repr, og)), ctx.site(bb))
                wpos = []
                for wb, wt in ctx.calls("std::io::Write::write_all"):
                    wpos.extend(ctx.track_call(wb).pos_edges(0))
                p = ctx.cfg.witness_path([bb], wpos)
                chk.require(bool(wpos) and p is None, "R2", actx.fn, "persist-after-successful-write",
                            "the new root.json can be renamed into place although writing it failed", ctx.site(bb), path=ctx.describe_path(p))


def r3_keyids(chk, prog):
    ctx = ctx_of(prog, "tuftool::root::add_key")
    if ctx is None:
        chk.anchor_missing("R3", "tuftool::root::add_key")
        return
    chk.analysed_body(ctx.body)
    ins = [(bb, t) for bb, t in ctx.calls("std::collections::hash::map::HashMap::insert")
           if all(o.fields[-1:] == ("keys",) for o in ctx.origins.of_operand(t.args[0]))]
    chk.floor("R3", len(ins), 1, "insertions into root.keys")
    for bb, t in ins:
        kid = ctx.origins.of_operand(t.args[1])
        ok = only_calls(kid, "tough::schema::key::Key::key_id")
        if ok:
            for o in kid:
                recv = ctx.origins.of_operand(o.extra.args[0])
                val = ctx.origins.of_operand(t.args[2])
                ok = ok and recv == val and all(x.kind == "param" and x.key[1] == "key" for x in recv)
        chk.require(ok, "R3", ctx.fn, "keyid-is-digest-of-key",
                    "a key is inserted into root.keys under an identifier that is not key.key_id() of that key: %s"
                    % sorted(map(repr, kid)), ctx.site(bb))
    # other writers of root.keys in tuftool::root
    others = []
    for b in prog.bodies.values():
        if not b.path.startswith("tuftool::root::") or short_fn(b.path) == "tuftool::root::add_key":
            continue
        c2 = ctx_of(prog, b.path)
        for bb, t in c2.calls("std::collections::hash::map::HashMap::insert"):
            if any(o.fields[-1:] == ("keys",) for o in c2.origins.of_operand(t.args[0])):
                others.append(short_fn(b.path))
    chk.require(not others, "R3", "tuftool::root", "keys-inserted-only-by-add_key",
                "root.keys is also written in %s" % others)


def r4_sign(chk, prog):
    ctx = async_body(prog, "tuftool::root::Command::sign")
    if ctx is None:
        chk.anchor_missing("R4", "tuftool::root::Command::sign")
        return
    chk.analysed_body(ctx.body)
    f = ctx.fn
    cfg = ctx.cfg
    pb = [bb for bb, _ in ctx.calls(*FS_PERSIST)]
    if not chk.require(bool(pb), "R4", f, "persist-site", "unrecognised-idiom: sign does not persist a temp file"):
        return
    # edges on which --ignore-threshold is set
    U = []
    for b in ctx.body.blocks:
        if b.cleanup or b.term is None or b.term.k != "switch":
            continue
        og = ctx.origins.of_operand(b.term.discr)
        if og and all(o.kind in ("upvar", "param") and o.key[1] == "ignore_threshold" for o in og):
            for v, d in b.term.tv:
                if v != 0:
                    U.append((b.idx, d, v))
            if any(v == 0 for v, _ in b.term.tv):
                U.append((b.idx, b.term.otherwise, "otherwise"))
    # `!ignore_threshold` lowered through Not
    for b in ctx.body.blocks:
        for s in b.stmts:
            if s.k == "assign" and s.rv.k == "un" and s.rv.j["op"] == "Not":
                og = ctx.origins.of_operand(s.rv.ops[0])
                if og and all(o.kind in ("upvar", "param") and o.key[1] == "ignore_threshold" for o in og):
                    tr = ctx.tracker.track(s.place.local, is_bool=True)
                    U.extend(tr.neg_edges(0))      # !ignore == false  <=> ignore set
    # R5: the signature-count test
    T = []
    for (bb, op, a, b_, tr, sp) in ctx.comparisons():
        da, db = deep_origins(ctx, a, 4), deep_origins(ctx, b_, 4)
        thr = lambda s: any(o.fields[-1:] == ("threshold",) or is_call(o, "core::num::nonzero::NonZero::get") for o in s)
        cnt = lambda s: any(is_call(o, "alloc::vec::Vec::len") for o in s)
        sigs = lambda s: any(o.fields[-1:] == ("signatures",) for o in s)
        if thr(da) and cnt(db) and sigs(db):
            edges, _ = normalise_le(op, True, tr)
            T.extend(edges or [])
        elif thr(db) and cnt(da) and sigs(da):
            edges, _ = normalise_le(op, False, tr)
            T.extend(edges or [])
    p = cfg.witness_path(pb, set(U) | set(T))
    chk.require(bool(T) and p is None, "R5", f, "signature-count-test",
                "sign writes the file on a path that neither has --ignore-threshold nor passes the edge "
                "root threshold <= number of signatures", ctx.site(pb[0]), path=ctx.describe_path(p))
    # R4: the result verifies under its own root keys (unless cross-signing / ignore-threshold)
    K = []
    for bb, t in ctx.calls(ROOT_VERIFY):
        K.extend(ctx.track_call(bb).pos_edges(0))
    X = []
    for b in ctx.body.blocks:
        for s in b.stmts:
            if s.k == "assign" and s.rv.k == "discr":
                og = ctx.origins.of_place(s.rv.place)
                if og and all(o.kind in ("upvar", "param") and o.key[1] == "cross_sign" for o in og):
                    for sw in ctx.tracker._switch_on(s.place.local, b.idx):
                        for v, d in sw.term.tv:
                            if s.rv.j["vars"].get(str(v)) == "Some":
                                X.append((sw.idx, d, v))
                        if not any(s.rv.j["vars"].get(str(v)) == "Some" for v, _ in sw.term.tv):
                            X.append((sw.idx, sw.term.otherwise, "otherwise"))
    p = cfg.witness_path(pb, set(U) | set(K) | set(X))
    chk.require(bool(K) and p is None, "R4", f, "self-verifies",
                "`root sign` (without --cross-sign / --ignore-threshold) reports success after counting ALL "
                "signatures in the file against the root threshold; it never checks Root::verify_role on the "
                "result, so signatures by keys that are not root-role keys (left by an earlier cross-sign) "
                "count: threshold 2, `sign -i --cross-sign old -k old` then `sign -k new1` succeeds with one "
                "root-key signature", ctx.site(pb[0]), path=ctx.describe_path(p))


def r6_old_signatures(chk, prog):
    """`sign` keeps signatures already in the file: at most one signature per key id may result,
    otherwise the signature-count test of `sign` is met by one key signing twice"""
    AOS = "tough::editor::signed::SignedRole::add_old_signatures"
    ctx = ctx_of(prog, AOS)
    if ctx is None:
        chk.anchor_missing("R6", AOS)
        return
    chk.analysed_body(ctx.body)
    pushes = [bb for bb, t in ctx.calls("alloc::vec::Vec::push")
              if any(o.fields[-1:] == ("signatures",) for o in ctx.origins.of_operand(t.args[0]))]
    guards = []
    for bb, t in ctx.calls("core::iter::traits::iterator::Iterator::any", "core::slice::<impl [T]>::contains"):
        if not t.is_call_to("core::iter::traits::iterator::Iterator::any"):
            continue
        clo = [o for o in ctx.origins.of_operand(t.args[1]) if o.kind == "agg"]
        good = False
        for o in clo:
            cpath = o.key[2].split(":", 1)[1]
            cctx = ctx_of(prog, cpath)
            if cctx is None:
                continue
            for (cb, op, a, b_, tr, sp) in cctx.comparisons():
                if op != "eq":
                    continue
                oa, ob = cctx.origins.of_operand(a), cctx.origins.of_operand(b_)
                if oa and ob and all(x.fields[-1:] == ("keyid",) for x in oa | ob):
                    good = True
        if good:
            guards.extend(ctx.tracker.track(t.dest.local, is_bool=True).neg_edges(0))
    p = ctx.cfg.witness_path(pushes, guards)
    chk.require(bool(pushes) and bool(guards) and p is None, "R6", ctx.fn, "one-signature-per-keyid",
                "an old signature is kept on a path that does not pass the edge 'no signature with the same key id is "
                "present yet': one key could contribute two signatures and satisfy `sign`'s signature count alone",
                path=ctx.describe_path(p))
