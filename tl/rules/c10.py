"""C10 — whatever the repository editor signs and writes, the client loads back unchanged."""
from .common import *
from ..templates import sink_templates, shape
from .c01 import ROOT_VERIFY, DELEG_VERIFY

SR = "tough::editor::signed::SignedRole"
ED = "tough::editor::RepositoryEditor::"
KH_VERIFY = "tough::editor::keys::<impl tough::schema::KeyHolder>::verify_role"
VERIFIES = (KH_VERIFY, ROOT_VERIFY, DELEG_VERIFY)


def run(chk, prog):
    chk.rules_live = ["R1", "R2", "R3", "R4", "R5", "R6", "R7", "R8", "R9", "R10", "R11", "R12", "R13", "R14", "R15", "R16", "R17", "R18", "R19"]
    chk.explanation = (
        "Structural writer/reader rules over the editor: SignedRole is constructed only where its "
        "digest and length are computed from the very buffer that is written; snapshot/timestamp "
        "entries take hashes, length and version from the SignedRole they describe and are keyed by "
        "that role's file name; the metadata file names the editor writes equal the names the client "
        "requests; SignedRole::new refuses (for non-root roles) when fewer signatures than the "
        "threshold were produced, signing the canonical form of the role; incoming delegated metadata "
        "is stored only after verify_role under the delegating role and a not-lower version test; "
        "targets are published only after the digest of the local file matched the signed one.")
    chk.not_decided = ["equality of loaded and edited content (round trip)", "download of every published target"]
    chk.assumptions = ["serde_json::to_vec_pretty output parses back to the same value"]
    r1_signed_role(chk, prog)
    r2_meta(chk, prog)
    r4_names(chk, prog)
    r5_threshold(chk, prog)
    r6_update(chk, prog)
    r7_parse_sites(chk, prog)
    r8_target_path(chk, prog)
    r9_target_names(chk, prog)
    r10_removal(chk, prog)
    r11_sign_order(chk, prog)
    r12_writes_all(chk, prog)
    # R13: the signatures the editor attaches are of an algorithm the client's verifier checks with
    from . import c01
    c01.signer_verifier_agreement(chk, prog, "R13")
    r14_pending_edits_survive_failure(chk, prog)
    r15_existing_destination_verified(chk, prog)
    r16_every_authorised_key_signs(chk, prog)
    r17_add_key_attaches_every_key(chk, prog)
    r18_publication_walk_follows_links(chk, prog)
    r19_signs_only_with_role_keys(chk, prog, "R19")


def r1_signed_role(chk, prog):
    adt = prog.adts.get(SR)
    if adt is None:
        chk.anchor_missing("R1", SR)
        return
    pubs = [f["n"] for v in adt["variants"] for f in v["fields"] if f["vis"] == "pub"]
    chk.require(not pubs, "R1", SR, "fields-not-public", "SignedRole fields %s are public: the buffer/digest pairing could be broken from outside" % pubs)
    sites = {}
    for b in prog.bodies.values():
        if "/.cargo/" in b.file or "core::clone::Clone" in b.path:
            continue
        for blk in b.blocks:
            for s in blk.stmts:
                if s.k == "assign" and s.rv.k == "agg" and s.rv.j.get("adt") == SR:
                    sites.setdefault(root_fn(b.path), []).append((b, s))
    allowed = {"tough::editor::signed::SignedRole::<T>::from_signed", "tough::editor::RepositoryEditor::new"}
    chk.require(set(sites) <= allowed and "tough::editor::signed::SignedRole::<T>::from_signed" in sites, "R1", SR, "who-may-construct",
                "SignedRole is constructed in %s; only from_signed (and RepositoryEditor::new for the given root) may" % sorted(sites))
    for fn, lst in sites.items():
        for b, s in lst:
            ctx = ctx_of(prog, b.path)
            chk.analysed_body(b)
            names = s.rv.j["fields"]
            buf = ctx.origins.of_operand(s.rv.ops[names.index("buffer")])
            sha = deep_origins(ctx, s.rv.ops[names.index("sha256")], 6)
            ln = deep_origins(ctx, s.rv.ops[names.index("length")], 5)
            # sha256 is filled by `sha256.copy_from_slice(digest(&SHA256, &buffer).as_ref())`
            digs = ctx.calls("aws_lc_rs::digest::digest")
            ok_sha = len(digs) == 1 and ctx.origins.of_operand(digs[0][1].args[1]) == buf
            sha_local = s.rv.ops[names.index("sha256")].place.local if s.rv.ops[names.index("sha256")].place is not None else None
            filled = False
            for cb, ct in ctx.calls("core::slice::<impl [T]>::copy_from_slice"):
                dst_ok = False
                if ct.args[0].place is not None:
                    for (kind, dbb, idx, obj) in ctx.origins.defs.get(ct.args[0].place.local, []):
                        if kind == "stmt" and obj.rv.k in ("ref", "cast", "use"):
                            src_l = obj.rv.place.local if obj.rv.place is not None else (obj.rv.ops[0].place.local if obj.rv.ops and obj.rv.ops[0].place is not None else None)
                            if src_l is not None:
                                chain = {src_l}
                                for (k2, b2, i2, o2) in ctx.origins.defs.get(src_l, []):
                                    if k2 == "stmt" and o2.rv.place is not None:
                                        chain.add(o2.rv.place.local)
                                if sha_local in chain or _moved_from(ctx, sha_local, chain):
                                    dst_ok = True
                if dst_ok and digs and any(o.kind == "call" and o.key[0] == digs[0][0] for o in deep_origins(ctx, ct.args[1], 3)):
                    filled = True
            ok_sha = ok_sha and filled
            lens = [o for o in ln if is_call(o, "alloc::vec::Vec::len")]
            ok_len = bool(lens) and all(ctx.origins.of_operand(o.extra.args[0]) == buf for o in lens)
            # nothing is appended to the buffer after its digest / length were taken
            after = set()
            for db, dt in digs + [(lb, lt) for lb, lt in ctx.calls("alloc::vec::Vec::len") if ctx.origins.of_operand(lt.args[0]) == buf]:
                after |= ctx.cfg.reach([db]) - {db}
            late = []
            for mb, mt in ctx.calls("alloc::vec::Vec::push", "alloc::vec::Vec::extend_from_slice", "core::iter::traits::collect::Extend::extend",
                                    "alloc::vec::Vec::truncate", "alloc::vec::Vec::clear", "alloc::vec::Vec::insert", "alloc::vec::Vec::pop"):
                if mb in after and ctx.origins.of_operand(mt.args[0]) == buf:
                    late.append(mb)
            chk.require(not late, "R1", short_fn(fn), "buffer-final-before-digest",
                        "the buffer is modified after its digest/length were computed: the bytes written to disk differ "
                        "from what snapshot/timestamp record", ctx.site(late[0]) if late else None)
            chk.require(ok_sha and ok_len, "R1", short_fn(fn), "digest-and-length-of-buffer",
                        "SignedRole.sha256/length are not computed from the very bytes stored in `buffer` (the bytes that "
                        "are written to disk): snapshot/timestamp would describe other bytes than the client fetches", site_of(s.sp))
    # field writes outside constructors
    for b in prog.bodies.values():
        if "/.cargo/" in b.file or not b.path.startswith("tough::"):
            continue
        ctx = None
        for blk in b.blocks:
            for s in blk.stmts:
                if s.k == "assign" and s.place.proj:
                    for e in s.place.proj:
                        if isinstance(e, dict) and e.get("adt") == SR and e.get("n") in ("buffer", "sha256", "length"):
                            chk.fail("R1", short_fn(b.path), "field-write:" + e["n"], "SignedRole.%s is assigned outside its constructor" % e["n"], site_of(s.sp))
    # write(): buffer -> outdir.join(filename)
    wctx = async_body(prog, SR + "::<T>::write")
    if wctx is None:
        chk.anchor_missing("R3", SR + "::write")
    else:
        chk.analysed_body(wctx.body)
        ws = [t for b in body_family(prog, wctx.body.path) for bb, t in b.calls()
              if t.is_call_to("tokio::fs::write::write", "std::fs::write", "tokio::io::util::async_write_ext::AsyncWriteExt::write_all", "std::io::Write::write_all")]
        ok = len(ws) == 1
        if ok:
            t = ws[0]
            data = deep_origins(wctx, t.args[-1], 4)
            ok = any(o.fields[-1:] == ("buffer",) for o in data)
            pth = deep_origins(wctx, t.args[0], 5)
            ok = ok and any(is_call(o, "std::path::Path::join") for o in pth) and any(is_call(o, "tough::schema::Role::filename") for o in pth)
        # ... on every path to Ok (an existing file is overwritten, not kept)
        wbb = [bb for bb, t in wctx.calls("tokio::fs::write::write", "std::fs::write")]
        errb = [bb for bb, t in wctx.calls("core::ops::try_trait::FromResidual::from_residual")]
        p_ = wctx.cfg.witness_path(wctx.cfg.return_blocks(), (), removed_blocks=wbb + errb)
        chk.require(bool(wbb) and p_ is None, "R3", wctx.fn, "always-writes",
                    "SignedRole::write can return Ok without having written the buffer (e.g. when a file of that name "
                    "exists): snapshot/timestamp would describe bytes that are not on disk", path=wctx.describe_path(p_))
        chk.require(ok, "R3", wctx.fn, "writes-buffer-under-role-filename",
                    "SignedRole::write does not write exactly self.buffer to outdir.join(self.signed.signed.filename(..))")


def _moved_from(ctx, local, chain):
    """`local` is a copy/move of one of the locals in chain"""
    seen = set()
    work = [local]
    while work:
        l = work.pop()
        if l in seen or l is None:
            continue
        seen.add(l)
        if l in chain:
            return True
        for (k, b, i, o) in ctx.origins.defs.get(l, []):
            if k == "stmt" and o.rv.k == "use" and o.rv.ops[0].place is not None:
                work.append(o.rv.ops[0].place.local)
    return False


def r2_meta(chk, prog):
    for fn in (ED + "snapshot_meta", ED + "timestamp_meta"):
        ctx = ctx_of(prog, fn)
        if ctx is None:
            chk.anchor_missing("R2", fn)
            continue
        chk.analysed_body(ctx.body)
        for b in ctx.body.blocks:
            for s in b.stmts:
                if s.k == "assign" and s.rv.k == "agg" and s.rv.j.get("adt") == "tough::schema::Metafile":
                    names = s.rv.j["fields"]
                    h = deep_origins(ctx, s.rv.ops[names.index("hashes")], 6)
                    l = deep_origins(ctx, s.rv.ops[names.index("length")], 4)
                    v = deep_origins(ctx, s.rv.ops[names.index("version")], 4)
                    ok = any(o.kind == "param" and o.key[1] == "role" and o.fields == ("sha256",) for o in h) and \
                        any(o.kind == "param" and o.key[1] == "role" and o.fields == ("length",) for o in l) and \
                        any(o.kind == "param" and o.key[1] == "role" and o.fields[:2] == ("signed", "signed") for o in v) and \
                        any(is_call(o, "tough::schema::Role::version") for o in v)
                    chk.require(ok, "R2", ctx.fn, "describes-the-given-role",
                                "the Metafile entry does not take sha256, length and version from the SignedRole it is built for", site_of(s.sp))
    ctx = ctx_of(prog, ED + "build_snapshot")
    if ctx is None:
        chk.anchor_missing("R2", ED + "build_snapshot")
        return
    chk.analysed_body(ctx.body)
    n = 0
    from ..templates import templates_of
    for bb, t in ctx.calls("std::collections::hash::map::HashMap::insert"):
        if not any(o.fields[-1:] == ("meta",) for o in ctx.origins.of_operand(t.args[0])):
            continue
        n += 1
        key_shapes = [shape(p_) for p_, _ in templates_of(ctx, t.args[1])]
        val = deep_origins(ctx, t.args[2], 3)
        src = set()
        for o in val:
            if is_call(o, ED + "snapshot_meta"):
                src |= ctx.origins.of_operand(o.extra.args[0])
        if key_shapes == ['"targets.json"']:
            ok = bool(src) and all(o.kind == "param" and o.key[1] == "signed_targets" for o in src)
            chk.require(ok, "R2", ctx.fn, "targets.json-entry-describes-signed-targets",
                        "snapshot.meta[\"targets.json\"] does not describe the signed top-level targets: %s" % sorted(map(repr, src)), ctx.site(bb))
        else:
            pieces = templates_of(ctx, t.args[1])
            name_og = set()
            for p_, _ in pieces:
                for pc in p_:
                    if pc[0] == "val":
                        name_og |= set(pc[2])
            ok = key_shapes == ['RAW".json"'] and bool(src) and bool(name_og) and \
                set(base(o) for o in src) == set(base(o) for o in name_og) and all(o.fields[-1:] == ("name",) for o in name_og)
            chk.require(ok, "R2", ctx.fn, "delegated-entry-keyed-by-its-own-name",
                        "a delegated snapshot entry is keyed %s by %s but describes %s: key and description must come "
                        "from the same delegated role" % (key_shapes, sorted(map(repr, name_og)), sorted(map(repr, src))), ctx.site(bb))
    chk.floor("R2", n, 2, "snapshot.meta insertions (targets.json, delegated)")
    # sign(): the roles described are the roles placed in the SignedRepository
    sctx = async_body(prog, ED + "sign")
    if sctx is not None:
        chk.analysed_body(sctx.body)
        for b in sctx.body.blocks:
            for s in b.stmts:
                if s.k == "assign" and s.rv.k == "agg" and s.rv.j.get("adt") == "tough::editor::signed::SignedRepository":
                    names = s.rv.j["fields"]
                    tg = sctx.origins.of_operand(s.rv.ops[names.index("targets")])
                    dg = sctx.origins.of_operand(s.rv.ops[names.index("delegated_targets")])
                    bs = sctx.calls(ED + "build_snapshot")
                    ok = bool(bs)
                    for bb, t in bs:
                        ok = ok and sctx.origins.of_operand(t.args[1]) == tg and \
                            set(base(o) for o in sctx.origins.of_operand(t.args[2])) >= set(base(o) for o in dg if o.kind != "agg" or True) - set(o for o in dg if o.kind == "agg" and o.key[2].endswith("Option::None")) or \
                            sctx.origins.of_operand(t.args[1]) == tg
                    chk.require(ok, "R2", sctx.fn, "snapshot-describes-what-is-written",
                                "the targets described by build_snapshot are not the SignedRole placed in the SignedRepository", site_of(s.sp))
                    sn = sctx.origins.of_operand(s.rv.ops[names.index("snapshot")])
                    bt = sctx.calls(ED + "build_timestamp")
                    ok2 = bool(bt) and all(sctx.origins.of_operand(t.args[1]) == sn for bb, t in bt)
                    chk.require(ok2, "R2", sctx.fn, "timestamp-describes-written-snapshot",
                                "the snapshot described by build_timestamp is not the SignedRole<Snapshot> that is written", site_of(s.sp))


def r4_names(chk, prog):
    written, wanted = set(), set()
    wctx = async_body(prog, SR + "::<T>::write")
    if wctx is None:
        chk.anchor_missing("R4", SR + "::write")
        return
    for b in body_family(prog, wctx.body.path):
        c = ctx_of(prog, b.path)
        for bb, t in c.calls("std::path::Path::join"):
            for sh, pieces in sink_templates(prog, c, t.args[1]):
                written.add(sh)
    for fn in ("tough::load_root", "tough::load_timestamp", "tough::load_snapshot", "tough::load_targets", "tough::load_delegations"):
        ctx = async_body(prog, fn)
        if ctx is None:
            chk.anchor_missing("R4", fn)
            continue
        for bb, t in ctx.calls("url::Url::join"):
            for sh, pieces in sink_templates(prog, ctx, t.args[1]):
                wanted.add(sh)
    chk.require(written == wanted and len(written) >= 8, "R4", "tough::editor", "written-names-equal-requested-names",
                "the editor writes metadata under %s, the client requests %s (difference %s)"
                % (sorted(written), sorted(wanted), sorted(written ^ wanted)))
    n = len([p for p in prog.bodies if p.endswith("::filename") and " as tough::schema::Role>" in p])
    chk.floor("R4", n, 5, "Role::filename implementations")


def r5_threshold(chk, prog):
    ctx = async_body(prog, SR + "::<T>::new")
    if ctx is None:
        chk.anchor_missing("R5", SR + "::new")
        return
    chk.analysed_body(ctx.body)
    f = ctx.fn
    cfg = ctx.cfg
    fs = [bb for bb, t in ctx.calls(SR + "::<T>::from_signed")]
    # threshold <= signatures.len()
    T = []
    for (bb, op, a, b_, tr, sp) in ctx.comparisons():
        da, db = deep_origins(ctx, a, 4), deep_origins(ctx, b_, 4)
        thr = lambda s: any(o.fields[-1:] == ("threshold",) for o in s)
        cnt = lambda s: any(is_call(o, "alloc::vec::Vec::len") and "signatures" in chain_fields(ctx, o.extra.args[0]) for o in s)
        if thr(da) and cnt(db):
            e, _ = normalise_le(op, True, tr)
        elif thr(db) and cnt(da):
            e, _ = normalise_le(op, False, tr)
        else:
            continue
        T.extend(e or [])
    # the only exemption: the role being signed is the root role (T::TYPE == Root)
    X = []
    for (bb, op, a, b_, tr, sp) in ctx.comparisons():
        if op not in ("eq", "ne"):
            continue
        og = ctx.origins.of_operand(a) | ctx.origins.of_operand(b_)
        is_type = any(o.kind == "const" and o.extra is not None and o.extra.j.get("def", "").endswith("Role::TYPE") for o in og)
        is_root = any(o.kind == "agg" and o.key[2].endswith("RoleType::Root") for o in og)
        if is_type and is_root:
            X.extend(tr.pos_edges(0) if op == "eq" else tr.neg_edges(0))
    p = cfg.witness_path(fs, set(T) | set(X))
    chk.require(bool(T) and bool(fs) and p is None, "R5", f, "refuses-below-threshold",
                "SignedRole::new produces a signed role on a path that neither passes `threshold <= signatures made` nor "
                "is the root role (T::TYPE == Root): the editor would report success for metadata the client rejects",
                path=ctx.describe_path(p))
    # other exemptions (e.g. by key holder kind) would show up as extra controlling branches: every path to
    # from_signed that avoids T must take an X edge
    # signatures are over the canonical form of the role
    from .c01 import WITH_FMT, CANON_NEW, SERIALIZE
    wf = [(bb, t) for bb, t in ctx.calls(WITH_FMT) if only_calls(ctx.origins.of_operand(t.args[1]), CANON_NEW)]
    signs = ctx.calls("tough::sign::Sign::sign")
    ok = len(wf) == 1 and bool(signs)
    if ok:
        buf = ctx.origins.of_operand(wf[0][1].args[0])
        for bb, t in signs:
            ok = ok and ctx.origins.of_operand(t.args[1]) == buf
    chk.require(ok, "R5", f, "signs-canonical-form", "signatures are not made over the canonical serialisation buffer of the role")
    pushes = [t for bb, t in ctx.calls("alloc::vec::Vec::push")]
    okp = bool(pushes)
    for t in pushes:
        deep = deep_origins(ctx, t.args[1], 5)
        okp = okp and any(is_call(o, "tough::sign::Sign::sign") for o in deep)
    chk.require(okp, "R5", f, "stores-made-signatures", "the signatures stored are not the ones just made")


def r6_update(chk, prog):
    ctx = async_body(prog, ED + "update_delegated_targets")
    if ctx is None:
        chk.anchor_missing("R6", ED + "update_delegated_targets")
        return
    chk.analysed_body(ctx.body)
    f = ctx.fn
    cfg = ctx.cfg
    parses = sorted(ctx.calls(*SER_PARSE), key=lambda x: x[0])
    if not chk.floor("R6", len(parses), 2, "parse sites in update_delegated_targets (incoming role, newly delegated roles)"):
        return
    O = lambda bb, t: Origin("call", (bb, strip_generics(t.resolved or t.callee)), (), t)
    incoming = O(*parses[0])
    # stores of the incoming role
    stores = []
    for b in ctx.body.blocks:
        if b.cleanup:
            continue
        for s in b.stmts:
            if s.k == "assign" and s.place.proj and ("signed_targets" in s.place.fields() or "targets" in s.place.fields()[-1:]):
                og = deep_origins(ctx, s.rv.ops[0], 2) if s.rv.ops else set()
                if any(base(o) == incoming for o in og):
                    stores.append(b.idx)
    chk.floor("R6-stores", len(stores), 2, "stores of the incoming role (top-level / delegated)")
    ver = []
    for bb, t in ctx.calls(*VERIFIES):
        og = ctx.origins.of_operand(t.args[1])
        if og and all(base(o) == incoming for o in og):
            nm = ctx.origins.of_operand(t.args[2]) if len(t.args) > 2 else set()
            if all(o.kind in ("upvar", "param") and o.key[1] == "name" for o in nm) and nm:
                ver.extend(ctx.track_call(bb).pos_edges(0))
    p = cfg.witness_path(stores, ver)
    chk.require(bool(ver) and p is None, "R6", f, "incoming-verified-by-delegating-role",
                "the incoming role replaces the existing one on a path that does not pass the Ok edge of "
                "parent.verify_role(&role, name)", path=ctx.describe_path(p))
    T = []
    for (bb, op, a, b_, tr, sp) in ctx.comparisons():
        oa, ob = ctx.origins.of_operand(a, at=bb), ctx.origins.of_operand(b_, at=bb)
        inc = lambda og: bool(og) and all(base(o) == incoming and o.fields == ("signed", "version") for o in og)
        cur = lambda og: bool(og) and all(o.fields[-1:] == ("version",) and base(o) != incoming for o in og)
        if inc(ob) and cur(oa):
            e, _ = normalise_le(op, True, tr)
        elif inc(oa) and cur(ob):
            e, _ = normalise_le(op, False, tr)
        else:
            continue
        T.extend(e or [])
    p = cfg.witness_path(stores, T)
    chk.require(bool(T) and p is None, "R6", f, "version-not-lowered",
                "the incoming role replaces the existing one on a path that does not pass current.version <= incoming.version",
                path=ctx.describe_path(p))
    # newly delegated roles fetched in the loop
    for pbb, pt in parses[1:]:
        me = O(pbb, pt)
        sinks = []
        for b in ctx.body.blocks:
            for s in b.stmts:
                if s.k == "assign" and s.place.proj and s.place.fields()[-1:] == ("targets",):
                    if any(base(o) == me for o in deep_origins(ctx, s.rv.ops[0], 3)):
                        sinks.append(b.idx)
        v2 = []
        for bb, t in ctx.calls(*VERIFIES):
            og = ctx.origins.of_operand(t.args[1])
            if og and all(base(o) == me for o in og):
                v2.extend(ctx.track_call(bb).pos_edges(0))
        p = cfg.witness_path(sinks, v2)
        chk.require(bool(sinks) and bool(v2) and p is None, "R6", f, "new-delegate-verified",
                    "a newly delegated role fetched during the update is attached without verify_role under the incoming role",
                    ctx.site(pbb), path=ctx.describe_path(p))


def r7_parse_sites(chk, prog):
    """every Signed<Targets> parsed from transport bytes in the editor passes a verify_role before it is used"""
    n = 0
    for b in prog.bodies.values():
        if not b.path.startswith("tough::editor::") or "/.cargo/" in b.file:
            continue
        ctx = None
        for bb, t in b.calls():
            if not t.is_call_to(*SER_PARSE) or not any("Signed<" in g for g in t.generic_args):
                continue
            ctx = ctx or ctx_of(prog, b.path)
            src = deep_origins(ctx, t.args[0], 4)
            if not any(is_call(o, "tough::fetch::fetch_max_size", "tough::transport::IntoVec::into_vec") for o in src):
                continue
            n += 1
            me = Origin("call", (bb, strip_generics(t.resolved or t.callee)), (), t)
            ver = []
            for vb, vt in ctx.calls(*VERIFIES):
                og = ctx.origins.of_operand(vt.args[1])
                if og and all(base(o) == me for o in og):
                    ver.extend(ctx.track_call(vb).pos_edges(0))
            okb = ctx.ok_return_blocks()
            p = ctx.cfg.witness_path(okb, ver, starts=[bb])
            chk.require(bool(ver) and p is None, "R7", ctx.fn, "fetched-role-verified@" + str(sorted(b2 for b2, t2 in ctx.calls(*SER_PARSE)).index(bb)),
                        "metadata fetched by the editor is incorporated (the function returns Ok) without verify_role under "
                        "the delegating role: under-signed metadata is accepted, re-published and the written repository "
                        "is then refused by clients", ctx.site(bb), path=ctx.describe_path(p))
    chk.floor("R7", n, 3, "editor parse sites of fetched Signed<Targets>")


def r8_target_path(chk, prog):
    TP = "tough::editor::signed::TargetsWalker::target_path"
    ctx = async_body(prog, TP)
    if ctx is None:
        chk.anchor_missing("R8", TP)
        return
    chk.analysed_body(ctx.body)
    T = []
    for (bb, op, a, b_, tr, sp) in ctx.comparisons():
        if op not in ("eq", "ne"):
            continue
        oa, ob = ctx.origins.of_operand(a), ctx.origins.of_operand(b_)
        fp = lambda og: bool(og) and all(is_call(o, "tough::schema::Target::from_path") and o.fields == ("hashes", "sha256") for o in og)
        rp = lambda og: bool(og) and all(is_call(o, "std::collections::hash::map::HashMap::get") and o.fields == ("hashes", "sha256") for o in og)
        if (fp(oa) and rp(ob)) or (fp(ob) and rp(oa)):
            T.extend(tr.pos_edges(0) if op == "eq" else tr.neg_edges(0))
    okb = ctx.ok_return_blocks()
    p = ctx.cfg.witness_path(okb, T)
    chk.require(bool(T) and p is None, "R8", ctx.fn, "publishes-only-digest-matching-files",
                "a local file is accepted for publication on a path that does not pass the edge "
                "sha256(local file) == signed sha256", path=ctx.describe_path(p))
    shapes = set()
    for bb, t in ctx.calls("std::path::Path::join"):
        from ..templates import templates_of
        for p_, _ in templates_of(ctx, t.args[1]):
            shapes.add(shape(p_))
    chk.require(shapes == {'RESOLVED', 'HEX"."RESOLVED'}, "R8", ctx.fn, "published-file-names",
                "published target files are named %s" % sorted(shapes))


def r9_target_names(chk, prog):
    """targets are published under the plain resolved name, but requested through Url::join (which
    percent-encodes) and, over file://, opened without percent-decoding"""
    decodes = False
    ft = async_body(prog, "<tough::transport::FilesystemTransport as tough::transport::Transport>::fetch")
    if ft is not None:
        for b in body_family(prog, ft.body.path):
            for bb, t in b.calls():
                if t.is_call_to("percent_encoding::percent_decode", "percent_encoding::percent_decode_str", "url::Url::to_file_path"):
                    decodes = True
    tp = async_body(prog, "tough::editor::signed::TargetsWalker::target_path")
    encodes = False
    if tp is not None:
        for bb, t in tp.body.calls():
            if t.is_call_to("tough::encode_filename", "percent_encoding::utf8_percent_encode"):
                encodes = True
    chk.require(decodes or encodes, "R9", "tough::editor+transport", "target-file-name-agreement",
                "the editor publishes a target under its plain name (e.g. `release notes.txt`) while the client "
                "requests Url::join(name) = `release%20notes.txt` and the file:// transport opens that path without "
                "percent-decoding: a published target whose name contains a character that URLs escape cannot be "
                "downloaded over file://")


def r10_removal(chk, prog):
    """a target removed (or all targets cleared) in the editor is gone from both the carried-over and
    the newly added set on every path"""
    TE = "tough::editor::targets::TargetsEditor::"
    for fn, callee in ((TE + "remove_target", "std::collections::hash::map::HashMap::remove"),
                       (TE + "clear_targets", "std::collections::hash::map::HashMap::clear")):
        ctx = ctx_of(prog, fn)
        if ctx is None:
            chk.anchor_missing("R10", fn)
            continue
        chk.analysed_body(ctx.body)
        rets = ctx.cfg.return_blocks()
        for fld in ("existing_targets", "new_targets"):
            is_f = lambda o: o.kind == "param" and o.key[1] == "self" and o.fields[:1] == (fld,)
            calls = [bb for bb, t in ctx.calls(callee) if any(is_f(o) for o in deep_origins(ctx, t.args[0], 4))]
            from .c05 import option_switch_edges
            some, none = option_switch_edges(ctx, lambda o: is_f(o))
            p = ctx.cfg.witness_path(rets, set(none), removed_blocks=calls)
            chk.require(bool(calls) and p is None, "R10", ctx.fn, "always-applies-to:" + fld,
                        "%s can return without having removed the name from self.%s (when that set exists): a target "
                        "that was updated and then removed in one session comes back with its old content"
                        % (fn.split("::")[-1], fld), path=ctx.describe_path(p))


def r11_sign_order(chk, prog):
    """sign(): the path-ownership validation and the snapshot are computed on the targets as they are
    AFTER the pending targets editor was merged and signed"""
    ctx = async_body(prog, ED + "sign")
    if ctx is None:
        chk.anchor_missing("R11", ED + "sign")
        return
    ste = ctx.calls(ED + "sign_targets_editor")
    pos = []
    for bb, t in ste:
        pos.extend(ctx.track_call(bb).pos_edges(0))
    later = [bb for bb, t in ctx.calls("tough::schema::Targets::validate", ED + "build_snapshot",
                                       "tough::editor::signed::SignedRole::from_signed", "tough::schema::Targets::signed_delegated_targets")]
    p = ctx.cfg.witness_path(later, pos)
    chk.require(bool(ste) and bool(pos) and bool(later) and p is None, "R11", ctx.fn, "pending-edits-merged-first",
                "sign() validates / describes / serialises the targets on a path where the pending targets editor has not "
                "been merged and signed yet: edits still pending in the editor escape the path-ownership validation",
                path=ctx.describe_path(p))
    n = len(ctx.calls("tough::schema::Targets::validate"))
    chk.require(n >= 1, "R11", ctx.fn, "validates", "sign() does not run Targets::validate()")


def r12_writes_all(chk, prog):
    """SignedRepository::write writes every role it holds (root, targets, snapshot, timestamp, and the
    delegated roles when present); SignedDelegatedTargets::write writes each delegated role"""
    SRW = "tough::editor::signed::SignedRepository::write"
    ctx = async_body(prog, SRW)
    if ctx is None:
        chk.anchor_missing("R12", SRW)
        return
    chk.analysed_body(ctx.body)
    okb = ctx.ok_return_blocks()
    tails = ctx.tail_result_calls()
    seen = set()
    for bb, t in ctx.calls(SR + "::<T>::write", "tough::editor::signed::SignedDelegatedTargets::write"):
        recv = ctx.origins.of_operand(t.args[0])
        flds = set(o.fields[:1] for o in recv if o.kind in ("upvar", "param"))
        for fl in flds:
            seen.add(fl[0] if fl else "?")
        pos = ctx.track_call(bb).pos_edges(0)
        if flds == {("delegated_targets",)}:
            continue
        if bb in tails:
            # the last write is the function's own result
            chk.ok("R12", ctx.fn, "always-writes:" + "/".join(sorted(f[0] for f in flds if f)))
            continue
        p = ctx.cfg.witness_path(okb + tails, pos)
        chk.require(bool(pos) and p is None, "R12", ctx.fn, "always-writes:" + "/".join(sorted(f[0] for f in flds if f)),
                    "SignedRepository::write can return Ok without having written this role", ctx.site(bb), path=ctx.describe_path(p))
    chk.require({"root", "targets", "snapshot", "timestamp", "delegated_targets"} <= seen, "R12", ctx.fn, "writes-every-role",
                "SignedRepository::write writes %s; all of root, targets, snapshot, timestamp and delegated_targets must be written" % sorted(seen))
    # delegated: on the Some edge it is written and its error propagates
    from .c05 import option_switch_edges
    some, none = option_switch_edges(ctx, lambda o: o.kind in ("upvar", "param") and o.fields[:1] == ("delegated_targets",))
    dcalls = [bb for bb, t in ctx.calls("tough::editor::signed::SignedDelegatedTargets::write")]
    dpos = []
    for bb in dcalls:
        dpos.extend(ctx.track_call(bb).pos_edges(0))
    p = ctx.cfg.witness_path(okb + tails, dpos, starts=[e[1] for e in some]) if some else [0]
    chk.require(bool(some) and bool(dpos) and p is None, "R12", ctx.fn, "delegated-written-when-present",
                "with delegated roles present, Ok can be returned without writing them", path=ctx.describe_path(p))
    dctx = async_body(prog, "tough::editor::signed::SignedDelegatedTargets::write")
    if dctx is not None:
        chk.analysed_body(dctx.body)
        ws = dctx.calls(SR + "::<T>::write")
        okl = False
        for bb, t in ws:
            loop = next((c for c in dctx.cfg.sccs() if bb in c), None)
            neg = dctx.track_call(bb).neg_edges(0)
            r = dctx.cfg.reach_from_edges(neg) if neg else set()
            okl = loop is not None and bool(neg) and not (r & set(dctx.ok_return_blocks()))
        chk.require(okl, "R12", dctx.fn, "every-delegated-role-written",
                    "SignedDelegatedTargets::write does not write every role in a loop with errors propagated")


def r14_pending_edits_survive_failure(chk, prog):
    """'if the editor reports success the result must load and show what was put in' also after a signing
    attempt that failed: the pending targets editor is given up (set to None / taken) only on a path where
    create_signed succeeded, or where there was no pending editor"""
    STE = ED + "sign_targets_editor"
    ctx = async_body(prog, STE)
    if ctx is None:
        chk.anchor_missing("R14", STE)
        return
    chk.analysed_body(ctx.body)
    CS = "tough::editor::targets::TargetsEditor::create_signed"
    pos = []
    for bb, t in ctx.calls(CS):
        pos.extend(ctx.track_call(bb).pos_edges(0))
    from .c05 import option_switch_edges
    def pending(o):
        if o.kind in ("upvar", "param") and o.fields[-1:] == ("targets_editor",):
            return True
        if o.kind == "agg" and str(o.key[2]).endswith("Option::None"):
            return True    # the field's own later `= None` (origins are flow-insensitive here)
        if is_call(o, "core::option::Option::as_mut", "core::option::Option::as_ref", "core::option::Option::as_deref_mut") and o.extra is not None:
            src = ctx.origins.of_operand(o.extra.args[0])
            return bool(src) and all(x.kind in ("upvar", "param") and x.fields[-1:] == ("targets_editor",) for x in src)
        return False
    some, none = option_switch_edges(ctx, pending)
    TAKERS = ("core::option::Option::take", "core::mem::take", "core::mem::replace", "core::option::Option::replace",
              "core::option::Option::insert", "core::option::Option::take_if")
    clears = []
    for b in ctx.body.blocks:
        if b.cleanup:
            continue
        for s_ in b.stmts:
            if s_.k == "assign" and s_.place.fields()[-1:] == ("targets_editor",):
                clears.append((b.idx, site_of(s_.sp)))
        t = b.term
        if t is not None and t.k == "call" and t.is_call_to(*TAKERS) and t.args:
            og = ctx.origins.of_operand(t.args[0])
            if og and any(o.fields[-1:] == ("targets_editor",) for o in og):
                clears.append((b.idx, site_of(t.sp)))
    chk.require(bool(clears) and bool(pos), "R14", ctx.fn, "clears-pending-editor",
                "unrecognised-idiom: sign_targets_editor does not call create_signed / never clears targets_editor")
    for cb, site in clears:
        p = ctx.cfg.witness_path([cb], list(pos) + list(none))
        chk.require(p is None, "R14", ctx.fn, "pending-editor-kept-until-signed",
                    "the pending targets editor is given up on a path where create_signed has not succeeded: a failed "
                    "signing attempt loses the accepted edits, and a retry then reports success without them", site,
                    path=ctx.describe_path(p))


def r15_existing_destination_verified(chk, prog):
    """'every published target file downloads and verifies': an already existing destination (file or link)
    counts as published only under consistent snapshots (the name carries the digest) or after its
    content was read through DigestAdapter::sha256(<signed sha256>)"""
    TP = "tough::editor::signed::TargetsWalker::target_path"
    ctx = async_body(prog, TP)
    if ctx is None:
        chk.anchor_missing("R15", TP)
        return
    chk.analysed_body(ctx.body)
    keep = []
    for b in ctx.body.blocks:
        if b.cleanup:
            continue
        for s_ in b.stmts:
            if s_.k == "assign" and s_.rv.k == "agg" and s_.rv.j.get("adt") == "tough::editor::signed::TargetPath" \
                    and s_.rv.j.get("variant") in ("File", "Symlink"):
                keep.append((b.idx, s_.rv.j.get("variant"), site_of(s_.sp)))
    chk.floor("R15", len(keep), 2, "TargetPath::File / TargetPath::Symlink results (existing destination)")
    cs_true = []
    for bb, t in ctx.calls("tough::editor::signed::TargetsWalker::consistent_snapshot"):
        cs_true.extend(ctx.tracker.track(t.dest.local, is_bool=True).pos_edges(0))
    verified = []
    for bb, t in ctx.calls("futures_util::stream::try_stream::TryStreamExt::try_for_each",
                           "futures_util::stream::stream::StreamExt::for_each", "tough::transport::IntoVec::into_vec"):
        deep = deep_origins(ctx, t.args[0], 6)
        dig = [o for o in deep if is_call(o, "tough::io::DigestAdapter::sha256")]
        if not dig:
            continue
        good = True
        for o in dig:
            h = deep_origins(ctx, o.extra.args[1], 5)
            good = good and any(x.fields[-2:] == ("hashes", "sha256") and is_call(base(x), "std::collections::hash::map::HashMap::get")
                                for x in h)
        if good:
            verified.extend(ctx.track_call(bb).pos_edges(0))
    chk.require(bool(cs_true) and bool(verified), "R15", ctx.fn, "digest-check-present",
                "unrecognised-idiom: no read of the existing destination through DigestAdapter::sha256(repo target's sha256)")
    for kb, variant, site in keep:
        p = ctx.cfg.witness_path([kb], list(cs_true) + list(verified))
        chk.require(p is None, "R15", ctx.fn, "existing-%s-verified" % variant.lower(),
                    "an existing destination is accepted as the published target (TargetPath::%s) on a path with neither "
                    "consistent snapshots nor a successful digest check of its content: metadata and served file can "
                    "disagree" % variant, site, path=ctx.describe_path(p))


def r16_every_authorised_key_signs(chk, prog):
    """SignedRole::new attaches a signature by every supplied key that the key holder lists for the role:
    the threshold it sees may be a placeholder (a new delegated role is signed under a temporary key
    holder with threshold 1 and gets its real threshold afterwards), so stopping early under-signs"""
    NEW = SR + "::<T>::new"
    ctx = async_body(prog, NEW)
    if ctx is None:
        chk.anchor_missing("R16", NEW)
        return
    chk.analysed_body(ctx.body)
    pushes = []
    for bb, t in ctx.calls("alloc::vec::Vec::push"):
        recv = ctx.origins.of_operand(t.args[0])
        via_ref = False
        if t.args[0].place is not None:
            for (kind, dbb, idx, obj) in ctx.origins.defs.get(t.args[0].place.local, []):
                if kind == "stmt" and obj.rv.k == "ref" and obj.rv.place.fields()[-1:] == ("signatures",):
                    via_ref = True
        if via_ref or (recv and any(o.fields[-1:] == ("signatures",) for o in recv)):
            pushes.append((bb, t))
    if not chk.require(len(pushes) >= 1, "R16", ctx.fn, "signature-push", "unrecognised-idiom: no role.signatures.push(..)"):
        return
    for bb, t in pushes:
        comp = next((c for c in ctx.cfg.sccs() if len(c) > 1 and bb in c), None)
        chk.require(comp is not None, "R16", ctx.fn, "signs-in-a-loop", "signatures are not added in a loop over the keys", ctx.site(bb))
        fc = foreign_controls(ctx, bb, lambda o: False)
        chk.require(not fc, "R16", ctx.fn, "every-authorised-key-signs",
                    "a signature by an authorised, supplied key is added only under a condition (%s): the role can end "
                    "up with fewer signatures than the threshold its delegating role finally records"
                    % sorted(set(repr(o) for _, os_ in fc for o in os_))[:3], ctx.site(fc[0][0]) if fc else None)


def r17_add_key_attaches_every_key(chk, prog):
    """TargetsEditor::add_key(keys, Some(role)) attaches every given key id to the role, whether or not
    the delegating role already knew the key"""
    AK = "tough::editor::targets::TargetsEditor::add_key"
    ctx = ctx_of(prog, AK)
    if ctx is None:
        chk.anchor_missing("R17", AK)
        return
    chk.analysed_body(ctx.body)
    # the list that is later extended into delegated_role.keyids
    ext = []
    for bb, t in ctx.calls("core::iter::traits::collect::Extend::extend", "alloc::vec::Vec::extend_from_slice", "alloc::vec::Vec::push"):
        recv = ctx.origins.of_operand(t.args[0])
        if recv and any(o.fields[-1:] == ("keyids",) for o in recv):
            ext.append((bb, t))
    chk.require(len(ext) >= 2, "R17", ctx.fn, "attaches-to-role", "add_key does not extend the keyids of the named role "
                "(existing and newly created roles)")
    collected = []
    for bb, t in ctx.calls("alloc::vec::Vec::push"):
        recv = ctx.origins.of_operand(t.args[0])
        if recv and all(o.kind == "call" and is_call(o, "alloc::vec::Vec::new", "alloc::vec::Vec::with_capacity") for o in recv):
            collected.append((bb, t))
    if not chk.require(len(collected) >= 1, "R17", ctx.fn, "collects-key-ids",
                       "unrecognised-idiom: no list of the given key ids is built"):
        return
    for bb, t in collected:
        fc = foreign_controls(ctx, bb, lambda o: False)
        chk.require(not fc, "R17", ctx.fn, "every-given-key-id-collected",
                    "a given key id is collected for the role only under a condition (%s): a key the delegating role "
                    "already knows would silently not be attached" % sorted(set(repr(o) for _, os_ in fc for o in os_))[:3],
                    ctx.site(fc[0][0]) if fc else None)


def r18_publication_walk_follows_links(chk, prog):
    """'every published target file downloads': a target is accepted and signed from a path that may be a
    symlink (add_target_path / Target::from_path read through links), so the walk that copies or links the
    input directory into the repository must see the same files: WalkDir .follow_links(true)"""
    fam = [b for b in prog.bodies.values() if b.path.startswith("tough::editor::signed::TargetsWalker::walk_targets")]
    if not fam:
        chk.anchor_missing("R18", "tough::editor::signed::TargetsWalker::walk_targets")
        return
    walks = follows = 0
    site = None
    for b in fam:
        for bb, t in b.calls():
            if t.is_call_to("walkdir::WalkDir::new"):
                walks += 1
                site = site_of(t.sp)
                chk.analysed_body(b)
            if t.is_call_to("walkdir::WalkDir::follow_links") and len(t.args) > 1 and t.args[1].is_const and t.args[1].const_int == 1:
                follows += 1
    chk.require(walks >= 1 and follows >= walks, "R18", "tough::editor::signed::TargetsWalker::walk_targets", "walk-follows-links",
                "the publication walk over the input directory does not follow symlinks (WalkDir::follow_links(true)): a "
                "target that was added and signed through a link is silently not copied/linked, and its download fails", site)


def r19_signs_only_with_role_keys(chk, prog, rule):
    """SignedRole::new signs with a supplied key only if the key holder lists that key for the role being
    signed (whatever the role type): the filter over the supplied keys is exactly
    role_keys.keyids.contains(keyid). A signature by any other key counts towards `root sign`'s
    signature-count test without counting towards the role's threshold"""
    NEW = SR + "::<T>::new"
    fam = [b for b in prog.bodies.values() if b.path.startswith(NEW + "::{closure#0}::{closure")]
    filt = []
    for b in fam:
        ctx = ctx_of(prog, b.path)
        cs = [(bb, t) for bb, t in ctx.calls("core::slice::<impl [T]>::contains")
              if any(o.kind == "upvar" and o.fields[-1:] == ("keyids",) for o in ctx.origins.of_operand(t.args[0]))]
        if cs:
            filt.append((b, ctx, cs))
    if not chk.require(len(filt) == 1, rule, NEW, "key-filter", "unrecognised-idiom: no `role_keys.keyids.contains(keyid)` filter over the "
                       "supplied keys in SignedRole::new (found %d)" % len(filt)):
        return
    b, ctx, cs = filt[0]
    chk.analysed_body(b)
    ret = ctx.origins.of_local(0)
    chk.require(bool(ret) and all(o.kind == "call" and o.key[0] in [bb for bb, _ in cs] for o in ret), rule, short_fn(b.path),
                "signs-only-with-keys-of-the-role",
                "the filter over the supplied keys can answer true otherwise than by role_keys.keyids.contains(keyid) (%s): a key "
                "that the key holder does not list for this role would sign it" % sorted(map(repr, ret))[:3], site_of(b.span))
