"""C18 — HTTP transport yields exactly the resource bytes or an error, retries bounded."""
from .common import *

H = "tough::http::"
RS = H + "RetryStream::"
PNR = RS + "poll_new_request"
MAY = RS + "may_retry"


def agg_blocks(ctx, adt, variant):
    out = []
    for b in ctx.body.blocks:
        if b.cleanup:
            continue
        for s in b.stmts:
            if s.k == "assign" and s.rv.k == "agg" and s.rv.j.get("adt") == adt and s.rv.j.get("variant") == variant:
                out.append(b.idx)
    return out


def variant_edges(ctx, adt, variant):
    """edges of discriminant switches on `adt` taken for `variant`"""
    out = []
    for b in ctx.body.blocks:
        for s in b.stmts:
            if s.k == "assign" and s.rv.k == "discr" and s.rv.j.get("adt") == adt:
                for sw in ctx.tracker._switch_on(s.place.local, b.idx):
                    listed = set()
                    for v, d in sw.term.tv:
                        nm = s.rv.j["vars"].get(str(v))
                        listed.add(nm)
                        if nm == variant:
                            out.append((sw.idx, d, v))
                    if variant not in listed and ctx.body.blocks[sw.term.otherwise].term.k != "unreachable":
                        rest = [n for n in s.rv.j["vars"].values() if n not in listed]
                        if rest == [variant]:
                            out.append((sw.idx, sw.term.otherwise, "otherwise"))
    return out


def run(chk, prog):
    chk.rules_live = ["R1", "R2", "R3", "R4", "R5", "R6"]
    chk.explanation = (
        "Structural rules over the MIR of the retry state machine: the status values that construct "
        "ErrorClass::FileNotFound are exactly 403/404/410, server errors construct Retryable, the "
        "rest Fatal, and only FileNotFound becomes TransportErrorKind::FileNotFound; a new request is "
        "issued from the error arms only for Retryable and only under the true edge of may_retry(), "
        "whose result is tries_left > 0 && (has_range_support || next_byte == 0) with the failed try "
        "counted before tries_left is computed and current_try written only by increment (+1); "
        "has_range_support is set only under the Accept-Ranges: bytes test; a Range header is sent "
        "exactly when next_byte != 0; every chunk passed on is preceded by next_byte += len. R6: "
        "the stream ends without an error item (Poll::Ready(None)) only where the response body "
        "itself ended, and `done` is set only there or together with an error item.")
    chk.not_decided = ["ordering/duplication of bytes on the wire", "timing, back-off durations", "server behaviour"]
    chk.assumptions = ["reqwest reports statuses and streams bodies as documented"]
    if prog.body(MAY) is None:
        chk.anchor_missing("R1", "tough::http (crate built without the `http` feature?)")
        return
    r1_classes(chk, prog)
    r2_r3_gating(chk, prog)
    r4_offsets(chk, prog)
    r5_budget(chk, prog)
    r6_who_ends(chk, prog)


def r1_classes(chk, prog):
    ctx = ctx_of(prog, H + "parse_response_code")
    if ctx is None:
        chk.anchor_missing("R1", H + "parse_response_code")
        return
    chk.analysed_body(ctx.body)
    f = ctx.fn
    EC = "tough::http::ErrorClass"
    fnf = agg_blocks(ctx, EC, "FileNotFound")
    ret = agg_blocks(ctx, EC, "Retryable")
    fat = agg_blocks(ctx, EC, "Fatal")
    chk.floor("R1", len(fnf) + len(ret) + len(fat), 3, "ErrorClass constructions in parse_response_code")
    # status switch
    vals, edges = set(), []
    for b in ctx.body.blocks:
        if b.cleanup or b.term is None or b.term.k != "switch":
            continue
        og = ctx.origins.of_operand(b.term.discr)
        if og and all(is_call(o, "http::status::StatusCode::as_u16") for o in og):
            for v, d in b.term.tv:
                vals.add(v)
                edges.append((b.idx, d, v))
    edges = matches_guard(ctx, edges) or edges
    if not vals:
        # `[403, 404, 410].contains(&status.as_u16())`
        import re as _re
        for bb, t in ctx.calls("core::slice::<impl [T]>::contains"):
            needle = ctx.origins.of_operand(t.args[1])
            if not (needle and all(is_call(o, "http::status::StatusCode::as_u16") for o in needle)):
                continue
            for o in deep_origins(ctx, t.args[0], 4):
                if o.kind == "const" and o.extra is not None:
                    if o.extra.const_int is not None:
                        vals.add(o.extra.const_int)
                    else:
                        vals |= set(int(x) for x in _re.findall(r"(\d+)_u16", str(o.extra.j.get("v", ""))))
            edges.extend(ctx.tracker.track(t.dest.local, is_bool=True).pos_edges(0))
    chk.require(vals == {403, 404, 410}, "R1", f, "file-not-found-statuses",
                "the statuses reported as 'file not found' are %s, expected exactly 403, 404, 410" % sorted(vals))
    p = ctx.cfg.witness_path(fnf, edges)
    chk.require(bool(fnf) and bool(edges) and p is None, "R1", f, "file-not-found-only-for-those",
                "ErrorClass::FileNotFound is constructed on a path that did not match 403/404/410", path=ctx.describe_path(p))
    srv = []
    for bb, t in ctx.calls("http::status::StatusCode::is_server_error"):
        srv.extend(ctx.tracker.track(t.dest.local, is_bool=True).pos_edges(0))
    p = ctx.cfg.witness_path(ret, srv)
    chk.require(bool(ret) and bool(srv) and p is None, "R1", f, "retryable-only-for-5xx",
                "a response is classified Retryable on a path that does not pass is_server_error() == true", path=ctx.describe_path(p))
    # 5xx never becomes fatal / fnf: fatal blocks are not reachable from the server-error edge
    r = ctx.cfg.reach_from_edges(srv) if srv else set()
    chk.require(not (r & set(fat)) and not (r & set(fnf)), "R1", f, "5xx-not-fatal", "a 5xx answer can be classified Fatal/FileNotFound")
    ok_blocks = agg_blocks(ctx, "tough::http::HttpResult", "Ok")
    okedges = []
    for bb, t in ctx.calls("reqwest::async_impl::response::Response::error_for_status"):
        okedges.extend(ctx.track_call(bb).pos_edges(0))
    p = ctx.cfg.witness_path(ok_blocks, okedges)
    chk.require(bool(ok_blocks) and bool(okedges) and p is None, "R1", f, "ok-only-for-success-status",
                "a response is passed on as success without error_for_status() being Ok", path=ctx.describe_path(p))
    # FileNotFound -> TransportErrorKind::FileNotFound only
    ectx = ctx_of(prog, RS + "poll_executing")
    if ectx is None:
        chk.anchor_missing("R1", RS + "poll_executing")
        return
    chk.analysed_body(ectx.body)
    kind_fnf = agg_blocks(ectx, "tough::transport::TransportErrorKind", "FileNotFound")
    ve = variant_edges(ectx, EC, "FileNotFound")
    p = ectx.cfg.witness_path(kind_fnf, ve)
    chk.require(bool(kind_fnf) and bool(ve) and p is None, "R1", ectx.fn, "file-not-found-kind-only-for-class",
                "TransportErrorKind::FileNotFound is reported for another error class", path=ectx.describe_path(p))
    for other in (RS + "poll_streaming", RS + "poll_err"):
        octx = ctx_of(prog, other)
        if octx is not None:
            chk.require(not agg_blocks(octx, "tough::transport::TransportErrorKind", "FileNotFound"), "R1", octx.fn,
                        "no-file-not-found-here", "%s reports FileNotFound" % other)


def r2_r3_gating(chk, prog):
    EC = "tough::http::ErrorClass"
    n = 0
    for fn in (RS + "poll_executing", RS + "poll_streaming"):
        ctx = ctx_of(prog, fn)
        if ctx is None:
            chk.anchor_missing("R2", fn)
            continue
        chk.analysed_body(ctx.body)
        news = [bb for bb, t in ctx.calls(PNR)]
        n += len(news)
        retry_edges = variant_edges(ctx, EC, "Retryable")
        may = []
        for bb, t in ctx.calls(MAY):
            may.extend(ctx.tracker.track(t.dest.local, is_bool=True).pos_edges(0))
        p = ctx.cfg.witness_path(news, retry_edges)
        chk.require(bool(news) and bool(retry_edges) and p is None, "R2", ctx.fn, "new-request-only-for-retryable",
                    "a new request is issued for an error that is not Retryable (fatal / file-not-found answers must "
                    "end the stream)", path=ctx.describe_path(p))
        p = ctx.cfg.witness_path(news, may)
        chk.require(bool(may) and p is None, "R3", ctx.fn, "new-request-only-if-may-retry",
                    "a retry request is issued on a path that does not pass may_retry() == true", path=ctx.describe_path(p))
        # fatal and file-not-found arms set done
        for variant in ("Fatal", "FileNotFound"):
            ve = variant_edges(ctx, EC, variant)
            if not ve:
                continue
            r = ctx.cfg.reach_from_edges(ve)
            chk.require(not (r & set(news)), "R2", ctx.fn, "no-request-after-" + variant,
                        "after a %s error a new request can still be issued" % variant)
    chk.floor("R3", n, 2, "retry request sites (executing, streaming)")
    # poll_err sets done
    pctx = ctx_of(prog, RS + "poll_err")
    if pctx is not None:
        chk.analysed_body(pctx.body)
        sets = [s for b in pctx.body.blocks for s in b.stmts if s.k == "assign" and s.place.fields()[-1:] == ("done",)
                and s.rv.ops and s.rv.ops[0].is_const and s.rv.ops[0].const_int == 1]
        chk.require(bool(sets), "R2", pctx.fn, "error-ends-stream", "poll_err does not set `done`")
    # may_retry's result
    mctx = ctx_of(prog, MAY)
    chk.analysed_body(mctx.body)
    # _0 = true only under: tries_left > 0, and (has_range_support or next_byte == 0)
    true_blocks = [b.idx for b in mctx.body.blocks for s in b.stmts
                   if s.k == "assign" and s.place.local == 0 and s.rv.k == "use" and s.rv.ops[0].is_const and s.rv.ops[0].const_int == 1]
    # direct copies `_0 = move _x` of a comparison also count as producing the result
    res_blocks = [b.idx for b in mctx.body.blocks for s in b.stmts if s.k == "assign" and s.place.local == 0]
    tl_edges, range_edges, zero_edges = [], [], []
    for (bb, op, a, b_, tr, sp) in mctx.comparisons():
        da, db = deep_origins(mctx, a, 4), deep_origins(mctx, b_, 4)
        if any(o.kind == "call" and o.key[1].endswith("saturating_sub") for o in da | db) or any(o.fields[-1:] == ("tries",) for o in da | db):
            zero = any(o.kind == "const" and o.extra is not None and o.extra.const_int == 0 for o in mctx.origins.of_operand(b_) | mctx.origins.of_operand(a))
            if op in ("gt", "ne") and zero:
                tl_edges.extend(tr.pos_edges(0))
        if any(o.fields[-1:] == ("next_byte",) for o in da | db) and op == "eq":
            zero_edges.extend(tr.pos_edges(0))
    for b in mctx.body.blocks:
        if b.cleanup or b.term is None or b.term.k != "switch":
            continue
        og = mctx.origins.of_operand(b.term.discr)
        if og and all(o.fields[-1:] == ("has_range_support",) for o in og):
            for v, d in b.term.tv:
                if v != 0:
                    range_edges.append((b.idx, d, v))
            if any(v == 0 for v, _ in b.term.tv):
                range_edges.append((b.idx, b.term.otherwise, "otherwise"))
    # blocks where the result can be true: reachable result blocks minus those assigning const false
    false_blocks = [b.idx for b in mctx.body.blocks for s in b.stmts
                    if s.k == "assign" and s.place.local == 0 and s.rv.k == "use" and s.rv.ops[0].is_const and s.rv.ops[0].const_int == 0]
    maybe_true = [b for b in res_blocks if b not in false_blocks]
    p = mctx.cfg.witness_path(maybe_true, tl_edges)
    chk.require(bool(tl_edges) and bool(maybe_true) and p is None, "R3", mctx.fn, "needs-tries-left",
                "may_retry can answer true without the edge tries_left > 0", path=mctx.describe_path(p))
    # the second conjunct: result true needs range support or next_byte == 0.  The last conjunct's value is copied
    # into the result, so: every path to a possibly-true result passes a range-support edge or reaches the
    # next_byte == 0 comparison whose outcome is the result.
    cmp_blocks = [bb for (bb, op, a, b_, tr, sp) in mctx.comparisons() if op == "eq" and any(o.fields[-1:] == ("next_byte",) for o in deep_origins(mctx, a, 3) | deep_origins(mctx, b_, 3))]
    p = mctx.cfg.witness_path(maybe_true, set(range_edges), removed_blocks=cmp_blocks)
    chk.require(bool(range_edges) and bool(cmp_blocks) and p is None, "R3", mctx.fn, "resume-needs-range-support",
                "may_retry can answer true after bytes were already delivered although the server did not announce "
                "range support: the retry would deliver the beginning of the resource again", path=mctx.describe_path(p))
    # has_range_support = true only under the header test
    ectx = ctx_of(prog, RS + "poll_executing")
    if ectx is not None:
        sets = [b.idx for b in ectx.body.blocks for s in b.stmts if s.k == "assign" and s.place.fields()[-1:] == ("has_range_support",)]
        hdr = []
        for bb, t in ectx.calls("core::str::<impl str>::contains"):
            k = ectx.const_str_of(t.args[1])
            if k == "bytes":
                hdr.extend(ectx.tracker.track(t.dest.local, is_bool=True).pos_edges(0))
        # combinator spelling: headers().get(ACCEPT_RANGES).and_then(..to_str().ok()).map_or(false, |v| v.contains("bytes"))
        for bb, t in ectx.calls("core::option::Option::map_or", "core::option::Option::is_some_and", "core::option::Option::is_some_and"):
            is_map_or = t.is_call_to("core::option::Option::map_or")
            if is_map_or and not (t.args[1].is_const and t.args[1].const_int == 0):
                continue
            cctx = closure_ctx(prog, ectx, t.args[2] if is_map_or else t.args[1])
            if cctx is None:
                continue
            ret = cctx.origins.of_local(0)
            if ret and all(is_call(o, "core::str::<impl str>::contains") and cctx.const_str_of(o.extra.args[1]) == "bytes" for o in ret):
                hdr.extend(ectx.tracker.track(t.dest.local, is_bool=True).pos_edges(0))
        gets = [t for bb, t in ectx.body.calls() if (t.callee or "").endswith("HeaderMap::get") or "header::map::HeaderMap" in (t.callee or "")]
        p = ectx.cfg.witness_path(sets, hdr)
        chk.require(bool(sets) and bool(hdr) and bool(gets) and p is None, "R3", ectx.fn, "range-support-from-header",
                    "has_range_support is set on a path that did not see `Accept-Ranges: bytes`", path=ectx.describe_path(p))
    # build_request: Range header iff next_byte != 0
    bctx = ctx_of(prog, H + "build_request")
    if bctx is None:
        chk.anchor_missing("R3", H + "build_request")
    else:
        chk.analysed_body(bctx.body)
        hdrs = [bb for bb, t in bctx.calls("reqwest::async_impl::request::RequestBuilder::header")]
        zero, nonzero = [], []
        for (bb, op, a, b_, tr, sp) in bctx.comparisons():
            og = bctx.origins.of_operand(a) | bctx.origins.of_operand(b_)
            if any(o.kind == "param" and o.key[1] == "next_byte" for o in og) and op in ("eq", "ne") and \
                    any(o.kind == "const" and o.extra is not None and o.extra.const_int == 0 for o in og):
                z = tr.pos_edges(0) if op == "eq" else tr.neg_edges(0)
                nz = tr.neg_edges(0) if op == "eq" else tr.pos_edges(0)
                zero.extend(z)
                nonzero.extend(nz)
        p = bctx.cfg.witness_path(hdrs, nonzero)
        okb = bctx.ok_return_blocks()
        p2 = bctx.cfg.witness_path(okb, (), starts=[e[1] for e in nonzero], removed_blocks=hdrs) if nonzero else [0]
        chk.require(bool(hdrs) and bool(nonzero) and p is None and p2 is None, "R3", bctx.fn, "range-header-iff-offset",
                    "the Range header is not sent exactly when next_byte != 0")
        tpl = False
        from ..templates import templates_of, shape
        for bb, t in bctx.calls("http::header::value::HeaderValue::from_str"):
            for p_, _ in templates_of(bctx, t.args[0]):
                sh = shape(p_)
                if sh.startswith('"bytes="') and sh.endswith('"-"'):
                    tpl = any(pc[0] == "val" and all(o.kind == "param" and o.key[1] == "next_byte" for o in pc[2]) for pc in p_)
        chk.require(tpl, "R3", bctx.fn, "range-from-next-byte", "the Range header is not `bytes=<next_byte>-`")
    nctx = ctx_of(prog, PNR)
    if nctx is not None:
        chk.analysed_body(nctx.body)
        for bb, t in nctx.calls(H + "build_request"):
            og = nctx.origins.of_operand(t.args[1])
            chk.require(bool(og) and all(o.fields[-2:] == ("retry_state", "next_byte") for o in og), "R3", nctx.fn, "resumes-at-next-byte",
                        "a retry does not resume at retry_state.next_byte", nctx.site(bb))


def r4_offsets(chk, prog):
    ctx = ctx_of(prog, RS + "poll_streaming")
    if ctx is None:
        chk.anchor_missing("R4", RS + "poll_streaming")
        return
    # blocks that produce Ready(Some(Ok(data)))
    outs = []
    for b in ctx.body.blocks:
        for s in b.stmts:
            if s.k == "assign" and s.rv.k == "agg" and s.rv.j.get("adt") == "core::result::Result" and s.rv.j.get("variant") == "Ok":
                og = deep_origins(ctx, s.rv.ops[0], 3)
                if any(is_call(o, "futures_core::stream::Stream::poll_next") for o in og):
                    outs.append(b.idx)
    adds = []
    for b in ctx.body.blocks:
        for s in b.stmts:
            if s.k == "assign" and s.place.fields()[-2:] == ("retry_state", "next_byte"):
                deep = deep_origins(ctx, s.rv.ops[0], 4) if s.rv.ops else set()
                if any(is_call(o, "bytes::bytes::Bytes::len") for o in deep) and any(o.kind == "bin" and o.key[2].startswith("Add") for o in deep):
                    adds.append(b.idx)
    p = ctx.cfg.witness_path(outs, (), removed_blocks=adds)
    chk.require(bool(outs) and bool(adds) and p is None, "R4", ctx.fn, "offset-advances-with-every-chunk",
                "a chunk is passed on without next_byte += data.len(): a later range request would repeat or skip bytes",
                path=ctx.describe_path(p))
    # next_byte is written nowhere else
    writers = set()
    for b in prog.bodies.values():
        if not b.path.startswith(H):
            continue
        for blk in b.blocks:
            for s in blk.stmts:
                if s.k == "assign" and s.place.fields()[-1:] == ("next_byte",):
                    writers.add(root_fn(b.path))
    chk.require(writers == {RS + "poll_streaming"}, "R4", "tough::http", "who-writes-next_byte", "next_byte is written in %s" % sorted(writers))
    # the stream polled is the current response body
    for bb, t in ctx.calls("futures_core::stream::Stream::poll_next"):
        deep = deep_origins(ctx, t.args[0], 5)
        chk.require(any(o.fields[-1:] == ("request",) for o in deep), "R4", ctx.fn, "polls-current-response", "poll_streaming polls something else than self.request")


def r5_budget(chk, prog):
    mctx = ctx_of(prog, MAY)
    subs = [bb for bb, t in mctx.body.calls() if (t.callee or "").endswith("saturating_sub") or (t.callee or "").endswith("checked_sub")]
    incs = [bb for bb, t in mctx.calls(H + "RetryState::increment")]
    reads = []
    for b in mctx.body.blocks:
        for s in b.stmts:
            if s.rv is not None:
                for pl in [s.rv.place] + [o.place for o in s.rv.ops]:
                    if pl is not None and pl.fields()[-1:] == ("current_try",):
                        reads.append(b.idx)
    p = mctx.cfg.witness_path(reads, (), removed_blocks=incs)
    chk.require(bool(incs) and bool(reads) and p is None, "R5", mctx.fn, "failed-try-counted-before-budget-test",
                "the remaining-tries test reads current_try before the failed try was accounted for: with the initial "
                "request not guarded, a fetch makes tries + 1 requests", path=mctx.describe_path(p))
    # increment: +1 unconditionally; current_try written only there; starts at 0
    ictx = ctx_of(prog, H + "RetryState::increment")
    if ictx is None:
        chk.anchor_missing("R5", H + "RetryState::increment")
    else:
        chk.analysed_body(ictx.body)
        w = []
        for b in ictx.body.blocks:
            for s in b.stmts:
                if s.k == "assign" and s.place.fields()[-1:] == ("current_try",):
                    w.append(b.idx)
        rets = ictx.cfg.return_blocks()
        p = ictx.cfg.witness_path(rets, (), removed_blocks=w)
        chk.require(bool(w) and p is None, "R5", ictx.fn, "always-increments", "increment() can return without current_try += 1", path=ictx.describe_path(p))
    writers = set()
    for b in prog.bodies.values():
        if not b.path.startswith(H):
            continue
        for blk in b.blocks:
            for s in blk.stmts:
                if s.k == "assign" and s.place.proj and s.place.fields()[-1:] == ("current_try",):
                    writers.add(root_fn(b.path))
    chk.require(writers == {H + "RetryState::increment"}, "R5", "tough::http", "who-writes-current_try", "current_try is written in %s" % sorted(writers))
    # the retry state as a whole is never replaced or rebuilt during a fetch (that would renew the budget)
    whole, ctors, new_callers = set(), set(), set()
    for b in prog.bodies.values():
        if not (b.path.startswith(H) or "tough::http::" in b.path):
            continue
        for blk in b.blocks:
            if blk.cleanup:
                continue
            for s_ in blk.stmts:
                if s_.k == "assign" and s_.place.proj and s_.place.fields()[-1:] == ("retry_state",):
                    whole.add(root_fn(b.path))
                if s_.k == "assign" and s_.rv.k == "agg" and s_.rv.j.get("adt") == "tough::http::RetryState" \
                        and "core::clone::Clone" not in b.path:
                    ctors.add(root_fn(b.path))
            t = blk.term
            if t is not None and t.k == "call" and t.is_call_to(H + "RetryState::new"):
                new_callers.add(root_fn(b.path))
    chk.require(not whole and ctors <= {H + "RetryState::new"} and
                new_callers <= {"<tough::http::HttpTransport as tough::transport::Transport>::fetch"}, "R5", "tough::http",
                "retry-state-never-rebuilt",
                "the retry state is replaced/rebuilt during a fetch (assigned in %s, constructed in %s, RetryState::new "
                "called from %s): the number of tries already used would be forgotten"
                % (sorted(whole), sorted(ctors - {H + "RetryState::new"}), sorted(new_callers)))
    callers = set()
    for b in prog.bodies.values():
        if b.path.startswith(H):
            for bb, t in b.calls():
                if t.is_call_to(H + "RetryState::increment"):
                    callers.add(root_fn(b.path))
    chk.require(callers == {MAY}, "R5", "tough::http", "who-calls-increment", "increment is called from %s" % sorted(callers))
    nctx = ctx_of(prog, H + "RetryState::new")
    if nctx is not None:
        ok = False
        for b in nctx.body.blocks:
            for s in b.stmts:
                if s.k == "assign" and s.rv.k == "agg" and s.rv.j.get("adt") == "tough::http::RetryState":
                    names = s.rv.j["fields"]
                    op = s.rv.ops[names.index("current_try")]
                    nb = s.rv.ops[names.index("next_byte")]
                    ok = op.is_const and op.const_int == 0 and nb.is_const and nb.const_int == 0
        chk.require(ok, "R5", nctx.fn, "starts-at-zero", "RetryState::new does not start at current_try = 0, next_byte = 0")
    # the unguarded initial request happens only from state None, which only stream creation constructs
    sites = set()
    for b in prog.bodies.values():
        if not b.path.startswith(H):
            continue
        for blk in b.blocks:
            for s in blk.stmts:
                if s.k == "assign" and s.rv.k == "agg" and s.rv.j.get("adt") == "tough::http::RequestState" and s.rv.j.get("variant") == "None":
                    sites.add(root_fn(b.path))
    chk.require(sites == {H + "fetch_with_retries"}, "R5", "tough::http", "initial-state-only-at-creation",
                "RequestState::None (which triggers an unguarded request) is constructed in %s" % sorted(sites))
    pn = [b for b in prog.bodies.values() if b.path.endswith("RetryStream as futures_core::stream::Stream>::poll_next")]
    if pn:
        cnt = sum(1 for b in body_family(prog, pn[0].path) for bb, t in b.calls() if t.is_call_to(PNR))
        chk.require(cnt == 1, "R5", "tough::http::RetryStream::poll_next", "one-unguarded-request", "poll_next issues %d unguarded requests" % cnt)


def r6_who_ends(chk, prog):
    """'if it ends without error the resource was delivered completely': who may produce the
    successful end of the stream"""
    fam = [b for b in prog.bodies.values() if "tough::http::RetryStream" in b.path and "/.cargo/" not in b.file
           and not b.path.startswith("<tough::http::RetryStream as core::fmt::Debug>")]
    chk.floor("R6-bodies", len(fam), 5, "bodies of the RetryStream state machine")
    n_end = n_done = 0
    for b in fam:
        ctx = ctx_of(prog, b.path)
        chk.analysed_body(b)
        f = ctx.fn
        # the inner body stream's own end
        inner_end = []
        for bb, t in ctx.calls("futures_core::stream::Stream::poll_next"):
            inner_end.extend(ctx.track_call(bb).neg_edges(1))
        # the `done` latch of poll_next
        done_true = []
        for blk in b.blocks:
            if blk.cleanup or blk.term is None or blk.term.k != "switch":
                continue
            og = ctx.origins.of_operand(blk.term.discr)
            if og and all(o.fields[-1:] == ("done",) for o in og):
                for v, d in blk.term.tv:
                    if v != 0:
                        done_true.append((blk.idx, d, v))
                if any(v == 0 for v, _ in blk.term.tv):
                    done_true.append((blk.idx, blk.term.otherwise, "otherwise"))
        errs = [bb for bb, t in ctx.calls("tough::transport::TransportError::new_with_cause", RS + "poll_err",
                                          "core::convert::Into::into", "core::convert::From::from")
                if t.is_call_to("tough::transport::TransportError::new_with_cause", RS + "poll_err")
                or "TransportError" in " ".join(t.generic_args)]
        rets = [blk.idx for blk in b.blocks if not blk.cleanup and blk.term is not None and blk.term.k == "return"]
        for blk in b.blocks:
            if blk.cleanup:
                continue
            for s_ in blk.stmts:
                if s_.k == "assign" and s_.rv.k == "agg" and s_.rv.j.get("variant") == "Ready" and s_.rv.ops:
                    og = ctx.origins.of_operand(s_.rv.ops[0])
                    if og and any(o.kind == "agg" and str(o.key[2]).endswith("Option::None") for o in og):
                        n_end += 1
                        allowed = inner_end + done_true
                        p = ctx.cfg.witness_path([blk.idx], allowed)
                        chk.require(bool(allowed) and p is None, "R6", f, "ends-only-when-body-ended",
                                    "the stream can end WITHOUT an error item on a path where the response body had not "
                                    "ended (and `done` was not already set): a caller would take a partial resource for "
                                    "complete", site_of(s_.sp), path=ctx.describe_path(p))
                if s_.k == "assign" and s_.place.fields()[-1:] == ("done",) and s_.rv.ops and s_.rv.ops[0].is_const \
                        and s_.rv.ops[0].const_int == 1:
                    n_done += 1
                    if b.path == RS + "poll_err":
                        continue
                    p1 = ctx.cfg.witness_path([blk.idx], inner_end) if inner_end else [0]
                    p2 = ctx.cfg.witness_path(rets, (), starts=[blk.idx], removed_blocks=errs) if errs else [0]
                    chk.require(p1 is None or p2 is None, "R6", f, "done-only-at-end-or-with-error",
                                "`done` is set although neither the response body ended nor an error item is returned",
                                site_of(s_.sp), path=ctx.describe_path(p2 if p2 else p1))
    chk.floor("R6-ends", n_end, 1, "Poll::Ready(None) constructions")
    chk.floor("R6-done", n_done, 3, "`done = true` sites (poll_err, end of body, file not found)")
