"""C08 — saving a target is atomic, verified-only and confined to the output directory."""
from .common import *
from ..templates import templates_of, shape

SAVE = "tough::Repository::save_target"
READ = "tough::Repository::read_target"


def run(chk, prog):
    chk.rules_live = ["R1", "R2", "R3", "R4", "R5", "R6"]
    chk.explanation = (
        "Who-may-write + dominance rules over the MIR of Repository::save_target (and its closures): the "
        "only mutating file-system calls are create_dir_all, NamedTempFile::new_in, writes to that temp "
        "file and persist (no write/create/copy/rename/link on a final path); persist is reached only "
        "through the end-of-stream (None) edge of the verified read_target stream and never from an "
        "Err item; every effect is dominated by the true edge of parent(outdir.join(name)).starts_with("
        "canonicalize(outdir)), the temp file lives in the destination's own directory; the file name "
        "originates from TargetName::resolved (optionally hex-digest prefixed), never from raw; "
        "clean_name returns a normalised name only after refusing '..', '' and names resolving to '/'. "
        "R6: 'whose bytes match the signed digest' rests on the stream save_target consumes: C06's "
        "read_target obligations (and through them the adapters and the target lookup) are re-evaluated.")
    chk.not_decided = ["path normalisation arithmetic of typed_path", "symlinks inside outdir",
                       "what an observer sees between syscalls (follows from temp+rename given POSIX rename)"]
    chk.assumptions = ["tempfile::NamedTempFile::persist is rename(2); drop deletes the temp file",
                       "Path::starts_with compares whole components"]
    ctx = async_body(prog, SAVE)
    if ctx is None:
        chk.anchor_missing("R1", SAVE)
        return
    chk.analysed_body(ctx.body)
    f = ctx.fn
    cfg = ctx.cfg
    effects = fs_effects(prog, ctx.body.path)
    allowed = FS_MKDIR + FS_TEMP_NEW + FS_PERSIST
    kinds = set()
    for b, bb, t, n in effects:
        ok = n in allowed
        kinds.add(n.split("::")[-1])
        chk.require(ok, "R1", f, "effect:" + n.split("::")[-1] + "@" + short_fn(b.path).split("::")[-1],
                    "save_target performs the file-system effect %s: target bytes may become visible at (or "
                    "destroy) the destination before they are verified; only temp-file-then-rename is allowed" % n,
                    site_of(t.sp))
    chk.require({"new_in", "persist"} <= kinds, "R1", f, "temp-then-rename",
                "save_target does not create a NamedTempFile and persist it (effects: %s)" % sorted(kinds))
    chk.floor("R1", len(effects), 3, "file-system effects in save_target (mkdir, temp, persist)")
    # writes go to the temp file
    persists = [(bb, t) for (b, bb, t, n) in effects if n in FS_PERSIST and b is ctx.body]
    temp_new = [(b, bb, t) for (b, bb, t, n) in effects if n in FS_TEMP_NEW]
    for bb, t in ctx.calls("tokio::io::util::async_write_ext::AsyncWriteExt::write_all", "std::io::Write::write_all"):
        deep = deep_origins(ctx, t.args[0], 6)
        ok = any(is_call(o, "tokio::task::blocking::spawn_blocking") or is_call(o, *FS_TEMP_NEW) for o in deep)
        chk.require(ok, "R1", f, "writes-go-to-temp-file", "target bytes are written to a file that is not the "
                    "temporary file", ctx.site(bb))
    async_write_flush_rule(chk, ctx, "R2", [bb for bb, _ in persists], "persist")
    # ---- R2: only a stream that ended without error is renamed into place
    reads = ctx.calls(READ)
    nexts = [(bb, t) for bb, t in ctx.calls("futures_util::stream::stream::StreamExt::next")
             if any(is_call(o, READ) for o in deep_origins(ctx, t.args[0], 3))]
    if chk.require(bool(reads) and bool(nexts) and bool(persists), "R2", f, "stream-loop",
                   "unrecognised-idiom: no read_target(..) stream consumed with .next() before persist"):
        none_edges, err_edges = [], []
        for bb, t in nexts:
            tr = ctx.track_call(bb)
            none_edges.extend(tr.neg_edges(0))
            err_edges.extend(tr.neg_edges(1))
        pb = [bb for bb, _ in persists]
        p = cfg.witness_path(pb, none_edges)
        chk.require(bool(none_edges) and p is None, "R2", f, "persist-only-after-end-of-stream",
                    "the temporary file is renamed to the destination on a path that did not see the end of the "
                    "verified stream", ctx.site(pb[0]), path=ctx.describe_path(p))
        r = cfg.reach_from_edges(err_edges) if err_edges else set()
        chk.require(bool(err_edges) and not (r & set(pb)), "R2", f, "no-persist-after-error-item",
                    "after the stream yielded an error (digest mismatch, oversize, transport error) the file can "
                    "still be renamed into place", ctx.site(pb[0]))
        # success means the rename happened: "either ends with a complete file whose bytes match the
        # signed digest .. or fails" — an Ok return that by-passes the rename (e.g. "already there")
        # vouches for bytes nobody verified
        pe = []
        for bb in pb:
            pe.extend(ctx.track_call(bb).pos_edges(0))
        okb = ctx.ok_return_blocks()
        p = cfg.witness_path(okb, pe)
        chk.require(bool(pe) and bool(okb) and p is None, "R2", f, "ok-needs-persist",
                    "save_target returns Ok on a path that does not pass the Ok edge of the rename of the "
                    "verified temporary file", ctx.site(pb[0]), path=ctx.describe_path(p))
        # the stream is the verified one and its acquisition succeeded
        for bb, t in reads:
            tr = ctx.track_call(bb)
            pos = tr.pos_edges(0) + tr.pos_edges(1)
            ok0 = bool(tr.pos_edges(0)) and cfg.witness_path(pb, tr.pos_edges(0)) is None
            chk.require(ok0, "R2", f, "read_target-succeeded", "persist is reachable although read_target failed", ctx.site(bb))
            nm = ctx.origins.of_operand(t.args[1])
            chk.require(bool(nm) and all(o.kind in ("upvar", "param") and o.key[1] == "name" for o in nm),
                        "R2", f, "reads-the-named-target", "the stream saved is not read_target(name)", ctx.site(bb))
    # ---- R3: containment
    CANON = ("tokio::fs::canonicalize::canonicalize", "std::fs::canonicalize", "std::path::Path::canonicalize")
    T = []
    for bb, t in ctx.calls("std::path::Path::starts_with"):
        a = ctx.origins.of_operand(t.args[0])
        b_ = ctx.origins.of_operand(t.args[1])
        if only_calls(b_, *CANON) and only_calls(a, "std::path::Path::parent"):
            T.extend(ctx.track_call(bb).pos_edges(0))
            par = list(a)[0]
            j = ctx.origins.of_operand(par.extra.args[0])
            okj = only_calls(j, "std::path::Path::join")
            if okj:
                for jo in j:
                    okj = okj and only_calls(ctx.origins.of_operand(jo.extra.args[0]), *CANON)
            chk.require(okj, "R3", f, "destination-is-outdir-join-name",
                        "the path whose parent is checked is not canonicalize(outdir).join(file name)", ctx.site(bb))
    eff_blocks = [bb for (b, bb, t, n) in effects if b is ctx.body]
    # effects inside closures: the block where the closure is handed to spawn_blocking
    for (b, bb, t, n) in effects:
        if b is not ctx.body:
            for bb2, t2 in ctx.calls("tokio::task::blocking::spawn_blocking"):
                if any(o.kind == "agg" and o.key[2].endswith(b.path) for o in ctx.origins.of_operand(t2.args[0])):
                    eff_blocks.append(bb2)
    p = cfg.witness_path(eff_blocks, T)
    chk.require(bool(T) and p is None, "R3", f, "effects-after-containment-check",
                "a file-system effect of save_target is reachable without passing the true edge of "
                "`destination_dir.starts_with(canonical outdir)`", site_of(ctx.body.span), path=ctx.describe_path(p))
    # same directory for temp file, mkdir and destination
    parent_calls = set()
    for bb, t in ctx.calls(*FS_MKDIR):
        parent_calls |= ctx.origins.of_operand(t.args[0])
    chk.require(only_calls(parent_calls, "std::path::Path::parent"), "R3", f, "mkdir-is-destination-dir",
                "create_dir_all is not applied to the destination's parent directory: %s" % sorted(map(repr, parent_calls)))
    for (b, bb, t) in temp_new:
        if b is ctx.body:
            og = ctx.origins.of_operand(t.args[0])
        else:
            cctx = ctx_of(prog, b.path)
            og = set()
            for o in cctx.origins.of_operand(t.args[0]):
                if o.kind == "upvar":
                    _, src = upvar_source(prog, cctx, o.key[0])
                    og |= src
                else:
                    og.add(o)
        chk.require(only_calls(og, "std::path::Path::parent"), "R3", f, "temp-file-in-destination-dir",
                    "the temporary file is not created in the destination's own directory (rename would not be "
                    "atomic / could cross file systems): %s" % sorted(map(repr, og)), site_of(t.sp))
    for bb, t in persists:
        og = ctx.origins.of_operand(t.args[1])
        chk.require(only_calls(og, "std::path::Path::join"), "R3", f, "persist-to-checked-destination",
                    "persist() renames onto a path that is not the checked destination: %s" % sorted(map(repr, og)), ctx.site(bb))
    # ---- R4: the file name
    for bb, t in ctx.calls("std::path::Path::join"):
        shapes = sorted(set(shape(p_) for p_, _ in templates_of(ctx, t.args[1])))
        ok = bool(shapes) and all(s in ('RESOLVED', 'HEX"."RESOLVED') for s in shapes)
        chk.require(ok, "R4", f, "file-name-from-resolved",
                    "the saved file's name is built from %s; only TargetName::resolved() (optionally prefixed by "
                    "the hex digest) may reach Path::join — the raw name may contain '..'" % shapes, ctx.site(bb))
    r5_clean_name(chk, prog)
    from .c06 import SubCheck
    from . import c06
    c06.run(SubCheck(chk, "R6"), prog)


def r5_clean_name(chk, prog):
    CN = "tough::target_name::clean_name"
    ctx = ctx_of(prog, CN)
    if ctx is None:
        chk.anchor_missing("R5", CN)
        return
    chk.analysed_body(ctx.body)
    f = ctx.fn
    cfg = ctx.cfg
    okb = ctx.ok_return_blocks()
    # the returned string derives from normalize()
    ret = set()
    for b in ctx.body.blocks:
        for s in b.stmts:
            if s.k == "assign" and s.place.local == 0 and s.rv.k == "agg" and s.rv.j.get("variant") == "Ok":
                ret |= deep_origins(ctx, s.rv.ops[0], 8)
    norm = [o for o in ret if o.kind == "call" and o.key[1].endswith("::normalize")]
    chk.require(bool(norm), "R5", f, "result-is-normalised",
                "the name returned by clean_name does not derive from a normalize() call (traversal segments "
                "would survive)")
    for o in norm:
        recv = deep_origins(ctx, o.extra.args[0], 4)
        rooted = any(x.kind == "const" and x.extra is not None and x.extra.const_str == "/" for x in recv)
        chk.require(rooted, "R5", f, "normalised-below-root",
                    "normalize() is not applied to \"/\".join(name): leading '..' segments could survive", ctx.site(o.key[0]))
    # the three refusals: "..", "", and "/" must lie on every path to Ok
    def eq_const_edges(val, want_equal):
        out = []
        for (bb, op, a, b_, tr, sp) in ctx.comparisons():
            if op not in ("eq", "ne"):
                continue
            og = ctx.origins.of_operand(a) | ctx.origins.of_operand(b_)
            if any(o.kind == "const" and o.extra is not None and o.extra.const_str == val for o in og):
                eq_edges = tr.pos_edges(0) if op == "eq" else tr.neg_edges(0)
                ne_edges = tr.neg_edges(0) if op == "eq" else tr.pos_edges(0)
                out.extend(eq_edges if want_equal else ne_edges)
        return out
    for val, label in (("..", "refuses-dotdot"), ("/", "refuses-root")):
        edges = eq_const_edges(val, False)
        p = cfg.witness_path(okb, edges)
        chk.require(bool(edges) and p is None, "R5", f, label,
                    "clean_name can return Ok without passing the edge `name != %r`" % val, site_of(ctx.body.span),
                    path=ctx.describe_path(p))
    empties = []
    for bb, t in ctx.calls("core::str::<impl str>::is_empty", "alloc::string::String::is_empty"):
        tr = ctx.track_call(bb)
        tr2 = ctx.tracker.track(t.dest.local, is_bool=True)
        empties.extend(tr2.neg_edges(0))
    p = cfg.witness_path(okb, empties)
    chk.require(bool(empties) and p is None, "R5", f, "refuses-empty",
                "clean_name can return Ok without passing a `!is_empty()` edge", site_of(ctx.body.span),
                path=ctx.describe_path(p))
    # TargetName::new stores clean_name's result
    nctx = ctx_of(prog, "tough::target_name::TargetName::new")
    if nctx is None:
        chk.anchor_missing("R5", "tough::target_name::TargetName::new")
        return
    chk.analysed_body(nctx.body)
    cn = nctx.calls(CN)
    pos = []
    for bb, t in cn:
        pos.extend(nctx.track_call(bb).pos_edges(0))
    p = nctx.cfg.witness_path(nctx.ok_return_blocks(), pos)
    chk.require(bool(pos) and p is None, "R5", nctx.fn, "new-requires-clean-name",
                "TargetName::new can succeed without clean_name having accepted the name", path=nctx.describe_path(p))
    for b in nctx.body.blocks:
        for s in b.stmts:
            if s.k == "assign" and s.rv.k == "agg" and s.rv.j.get("adt") == "tough::target_name::TargetName":
                names = s.rv.j["fields"]
                r = nctx.origins.of_operand(s.rv.ops[names.index("resolved")])
                ok = all((o.kind == "agg" and o.key[2].endswith("Option::None")) or is_call(o, CN) or
                         (o.kind == "const") for o in r)
                chk.require(ok, "R5", nctx.fn, "resolved-is-clean-name",
                            "TargetName.resolved is set from %s, not from clean_name's result" % sorted(map(repr, r)), site_of(s.sp))
    # who may construct TargetName
    sites = set()
    for b in prog.bodies.values():
        if "/.cargo/" in b.file or "core::clone::Clone" in b.path:
            continue
        for blk in b.blocks:
            for s in blk.stmts:
                if s.k == "assign" and s.rv.k == "agg" and s.rv.j.get("adt") == "tough::target_name::TargetName":
                    sites.add(short_fn(b.path))
    chk.require(sites == {"tough::target_name::TargetName::new"}, "R5", "tough::target_name::TargetName",
                "constructed-only-by-new", "TargetName is constructed in %s (bypassing clean_name)" % sorted(sites))
    # resolved(): returns self.resolved or (when None) raw
    rctx = ctx_of(prog, "tough::target_name::TargetName::resolved")
    if rctx is not None:
        chk.analysed_body(rctx.body)
        og = rctx.origins.of_local(0)
        fields = set(o.fields[:1] for o in og if o.kind == "param") | \
            set(("raw()",) for o in og if is_call(o, "tough::target_name::TargetName::raw"))
        chk.require(("resolved",) in fields, "R5", rctx.fn, "resolved-returns-resolved",
                    "TargetName::resolved does not return the stored resolved name")
