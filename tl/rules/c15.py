"""C15 — stored trust state survives crashes and I/O failures of the client."""
from .common import *
from .c01 import ROOT_VERIFY, DELEG_VERIFY
from .c03 import CREATE, REMOVE, BYTES

DS = "tough::datastore::Datastore::"
DSPATH = "tough::datastore::DatastorePath::path"


def run(chk, prog):
    chk.rules_live = ["R1", "R2", "R3", "R4", "R5"]
    chk.explanation = (
        "Who-may-write rules over the resolved callees of datastore.rs: the only mutating file-system "
        "primitives reachable with a datastore path are remove_file (Datastore::remove) and, in "
        "Datastore::create, NamedTempFile::new_in(<datastore dir>) -> write_all -> persist(<dir>/<file>) "
        "with persist dominated by the Ok edge of the write; no write/create/copy/rename in place; "
        "DatastorePath::path is private to datastore.rs; every document handed to Datastore::create in "
        "lib.rs has passed verify_role on all paths. Hence a crash or failed write leaves either the old "
        "or the new complete file, both previously verified. R3: a failing read of stored state "
        "(Datastore::bytes returning Err) always fails the cycle — it is never read as 'nothing "
        "stored', which would let the cycle overwrite newer trusted documents. R4: stored state is "
        "unlinked only in load_root and only timestamp.json / snapshot.json (the recovery C14 "
        "requires); anything else deleted before its replacement exists is protection lost at a "
        "crash point.")
    chk.not_decided = ["power-loss durability (no fsync; outside the stated fault model)",
                       "behaviour of rename(2) on exotic file systems"]
    chk.assumptions = ["NamedTempFile::persist is an atomic rename within one directory; dropping an unpersisted "
                       "NamedTempFile removes it"]
    fam = [b for b in prog.bodies.values() if b.path.startswith("tough::datastore::")]
    chk.floor("R1-bodies", len(fam), 10, "bodies in tough::datastore")
    effects = []
    for b in fam:
        chk.analysed_body(b)
        for bb, t in b.calls():
            for n in FS_ALL_MUTATING:
                if t.is_call_to(n):
                    effects.append((b, bb, t, n))
                    break
    allowed_by_fn = {
        DS + "create": FS_TEMP_NEW + FS_PERSIST,
        DS + "remove": ("tokio::fs::remove_file::remove_file", "std::fs::remove_file"),
    }
    seen = {}
    for b, bb, t, n in effects:
        owner = None
        for fn in allowed_by_fn:
            if b.path == fn or b.path.startswith(fn + "::{closure"):
                owner = fn
        ok = owner is not None and n in allowed_by_fn[owner]
        seen.setdefault(owner, set()).add(n.split("::")[-1])
        chk.require(ok, "R1", short_fn(b.path), "effect:" + n.split("::")[-1],
                    "datastore.rs performs the file-system effect %s in %s: stored trust state may be truncated or "
                    "replaced non-atomically (only remove_file in Datastore::remove and temp-file-then-persist in "
                    "Datastore::create are allowed)" % (n, b.path), site_of(t.sp))
    chk.require({"new_in", "persist"} <= seen.get(DS + "create", set()) or
                {"new", "persist"} <= seen.get(DS + "create", set()), "R1", DS + "create", "temp-then-rename",
                "Datastore::create does not write through a temporary file that is persisted (renamed) into place: "
                "effects %s" % sorted(seen.get(DS + "create", set())))
    chk.floor("R1", len(effects), 3, "file-system effects in datastore.rs (temp, persist, remove)")
    # details of create
    cctx = async_body(prog, DS + "create")
    if cctx is None:
        chk.anchor_missing("R1", DS + "create")
    else:
        fam_c = body_family(prog, cctx.body.path)
        for b in fam_c:
            ctx = ctx_of(prog, b.path)
            persists = ctx.calls(*FS_PERSIST)
            news = ctx.calls(*FS_TEMP_NEW)
            writes = ctx.calls("std::io::Write::write_all", "tokio::io::util::async_write_ext::AsyncWriteExt::write_all")
            if not persists:
                continue
            async_write_flush_rule(chk, ctx, "R1", [bb for bb, _ in persists], "persist")
            # persist only after the write succeeded
            wpos = []
            for bb, t in writes:
                wpos.extend(ctx.track_call(bb).pos_edges(0))
            pb = [bb for bb, _ in persists]
            p = ctx.cfg.witness_path(pb, wpos)
            chk.require(bool(wpos) and p is None, "R1", cctx.fn, "persist-after-successful-write",
                        "the temporary file can be renamed over the stored file although writing it failed or did "
                        "not happen", ctx.site(pb[0]), path=ctx.describe_path(p))

            def resolve(og):
                out = set()
                for o in og:
                    if o.kind == "upvar" and ctx is not cctx:
                        _, src = upvar_source(prog, ctx, o.key[0])
                        out |= src
                    else:
                        out.add(o)
                return out
            for bb, t in news:
                og = resolve(ctx.origins.of_operand(t.args[0])) if t.args else set()
                chk.require(only_calls(og, DSPATH), "R1", cctx.fn, "temp-in-datastore-dir",
                            "the temporary file is not created in the datastore directory itself: %s"
                            % sorted(map(repr, og)), ctx.site(bb))
            for bb, t in persists:
                og = resolve(ctx.origins.of_operand(t.args[1]))
                ok = only_calls(og, "std::path::Path::join")
                if ok:
                    for o in og:
                        base_og = cctx.origins.of_operand(o.extra.args[0])
                        file_og = cctx.origins.of_operand(o.extra.args[1])
                        ok = ok and only_calls(base_og, DSPATH) and all(x.kind in ("upvar", "param") and x.key[1] == "file" for x in file_og)
                chk.require(ok, "R1", cctx.fn, "persist-onto-datastore-file",
                            "persist() does not rename onto <datastore dir>/<file>: %s" % sorted(map(repr, og)), ctx.site(bb))
            # what is written are the serialised bytes of `value`
            for bb, t in writes:
                og = resolve(ctx.origins.of_operand(t.args[1]))
                ok = only_calls(og, "serde_json::ser::to_vec")
                chk.require(ok, "R1", cctx.fn, "writes-serialised-value",
                            "the bytes written are not serde_json::to_vec(value): %s" % sorted(map(repr, og)), ctx.site(bb))
    # DatastorePath::path is used only inside datastore.rs
    users = set()
    for b in prog.bodies.values():
        for bb, t in b.calls():
            if t.is_call_to(DSPATH):
                users.add(short_fn(b.path))
    outside = [u for u in users if not u.startswith("tough::datastore::")]
    chk.require(not outside and bool(users), "R1", "tough::datastore::DatastorePath", "path-private",
                "the datastore directory path is obtained outside datastore.rs: %s" % outside)
    # who may call create/remove
    r2_create_sites(chk, prog)
    r3_read_errors(chk, prog)
    r4_unlink_scope(chk, prog)
    r5_stored_is_reference_only(chk, prog)


def r2_create_sites(chk, prog):
    n = 0
    for b in prog.bodies.values():
        if not (b.path.startswith("tough::") or b.path.startswith("<tough::")):
            continue
        ctx = None
        for bb, t in b.calls():
            if not t.is_call_to(CREATE):
                continue
            ctx = ctx or ctx_of(prog, b.path)
            n += 1
            f = ctx.fn
            chk.analysed_body(b)
            val = ctx.origins.of_operand(t.args[2])
            if f.startswith("tough::datastore::"):
                ok = only_calls(val, "chrono::offset::utc::Utc::now")
                chk.require(ok, "R2", f, "time-file", "Datastore::system_time stores something else than the sampled time")
                continue
            ok_parse = only_calls(val, *SER_PARSE)
            chk.require(ok_parse, "R2", f, "stored-value-is-parsed-document:%s" % (ctx.const_str_of(t.args[1]) or "delegated"),
                        "a value that is not a freshly parsed document is persisted: %s" % sorted(map(repr, val)), ctx.site(bb))
            edges = []
            for vb, vt in ctx.calls(ROOT_VERIFY, DELEG_VERIFY, wrappers=True):
                if ctx.origins.of_operand(vt.args[1]) == val:
                    edges.extend(ctx.track_call(vb).pos_edges(0))
            p = ctx.cfg.witness_path([bb], edges)
            chk.require(bool(edges) and p is None, "R2", f, "stored-only-after-verification:%s" % (ctx.const_str_of(t.args[1]) or "delegated"),
                        "a document is persisted as trust state on a path where its signatures were not verified: an "
                        "interrupted cycle could leave state that blocks (or weakens) later cycles",
                        ctx.site(bb), path=ctx.describe_path(p))
    chk.floor("R2", n, 5, "Datastore::create call sites (timestamp, snapshot, targets, delegated, time)")


def r3_read_errors(chk, prog):
    n = 0
    for b in list(prog.bodies.values()):
        if not (b.path.startswith("tough::") or b.path.startswith("<tough::")) or "/.cargo/" in b.file:
            continue
        if not any(t.is_call_to(BYTES) for _, t in b.calls()):
            continue
        ctx = ctx_of(prog, b.path)
        chk.analysed_body(b)
        okb = ctx.ok_return_blocks()
        for k_, (bb, t) in enumerate(sorted(ctx.calls(BYTES), key=lambda x: (x[1].sp["l"], x[1].sp.get("c", 0)))):
            n += 1
            name = ctx.const_str_of(t.args[1]) or "#%d" % k_
            tr = ctx.track_call(bb)
            neg = tr.neg_edges(0)
            r = ctx.cfg.reach_from_edges(neg) if neg else set()
            creates = set(cb for cb, _ in ctx.calls(CREATE))
            ok = bool(neg) and bool(okb) and not (r & set(okb)) and not (r & creates)
            chk.require(ok, "R3", ctx.fn, "read-error-fails-the-cycle:" + name,
                        "an error reading stored trust state is not propagated (it is treated like an absent file, or "
                        "the function cannot return an error): the cycle would go on without the rollback baseline and "
                        "replace newer stored documents", ctx.site(bb))
    chk.floor("R3", n, 2, "Datastore::bytes call sites (stored documents, latest_known_time)")


def r4_unlink_scope(chk, prog):
    n = 0
    allowed = {"timestamp.json", "snapshot.json"}
    for b in list(prog.bodies.values()):
        if not (b.path.startswith("tough::") or b.path.startswith("<tough::")) or "/.cargo/" in b.file:
            continue
        if b.path.startswith("tough::datastore::"):
            continue
        for bb, t in b.calls():
            if not t.is_call_to(REMOVE):
                continue
            ctx = ctx_of(prog, b.path)
            chk.analysed_body(b)
            n += 1
            names = const_strs_of(ctx, t.args[1])
            name = "+".join(sorted(names)) if names else None
            chk.require(root_fn(b.path) == "tough::load_root" and bool(names) and names <= allowed, "R4", ctx.fn,
                        "unlinks-only-online-role-files:%s" % (name or "non-constant"),
                        "stored trust state %s is unlinked in %s: only timestamp.json and snapshot.json may be "
                        "deleted (in load_root, after an online-key rotation); a cycle cut short after the unlink "
                        "leaves no baseline for that document" % (name or "<non-constant name>", root_fn(b.path)), ctx.site(bb))
    chk.floor("R4", n, 1, "Datastore::remove call sites")


def r5_stored_is_reference_only(chk, prog):
    """a half-finished cycle leaves files of different generations side by side (each file is replaced
    atomically, the set is not): that is harmless only because a stored document is never *used* as the
    document of the current cycle — what a loader returns and stores is parsed from fetched bytes only"""
    from .c03 import LOADERS, fetched_origin, stored_reads
    n = 0
    for fn, fname in LOADERS + [("tough::load_root", "root.json")]:
        ctx = async_body(prog, fn)
        if ctx is None:
            chk.anchor_missing("R5", fn)
            continue
        chk.analysed_body(ctx.body)
        docs = [o for o in fetched_origin(ctx) if o.kind == "call" and o.extra is not None and o.extra.is_call_to(*SER_PARSE)]
        if fn == "tough::load_root":
            docs = docs[1:] if len(docs) > 1 else []     # the shipped root comes from the caller, not from a fetch
        for o in docs:
            n += 1
            deep = deep_origins(ctx, o.extra.args[0], 6)
            from_store = [x for x in deep if is_call(x, BYTES)]
            for hb, ht, _lvl in stored_reads(ctx):
                if any(x.kind == "call" and x.key[0] == hb for x in deep):
                    from_store.append(ht)
            chk.require(not from_store, "R5", ctx.fn, "trusted-document-is-fetched:" + fname,
                        "the document %s returns can be parsed from bytes read back from the datastore: files left "
                        "behind by an interrupted cycle (timestamp of generation N+1 next to snapshot of generation "
                        "N) would then make the client refuse the current repository" % fn.split("::")[-1],
                        ctx.site(o.key[0]))
    chk.floor("R5", n, 3, "returned documents of the loaders")
