"""C02 — root rotation follows an unbroken, doubly-signed, forward-only chain."""
from .common import *
from .c01 import ROOT_VERIFY, _dominates_other_defs
from ..templates import templates_of, shape

FETCH_MAX = "tough::fetch::fetch_max_size"


def run(chk, prog):
    chk.rules_live = ["R1", "R2", "R3", "R4", "R5", "R6", "R7"]
    chk.explanation = (
        "Dominance rules over the MIR of load_root: the shipped root is self-verified before any "
        "fetch; the assignment that adopts a fetched root is dominated by the Ok edges of "
        "verify_role(current root -> new) and verify_role(new -> new) (receivers of different "
        "origin), by the edge current.version <= new.version and by the not-equal edge; the loop is "
        "left normally only on fetch error / FileNotFound / equal version, every other failure "
        "returns Err; the function returns the loop variable; the file requested is "
        "<current version + 1>.root.json; Repository::load hands load_root's result to "
        "load_timestamp/snapshot/targets. R6: the verifier both signature rules rely on, "
        "Root::verify_role, satisfies C01's verifier obligations (threshold of DISTINCT authorised "
        "keys over the canonical form) — re-evaluated here because a chain is only 'doubly signed' "
        "if the verifier counts keys correctly.")
    chk.not_decided = ["transport behaviour", "that versions advance by exactly one (the property requires only 'higher')"]
    chk.assumptions = ["NonZeroU64 ordering"]
    ctx = async_body(prog, "tough::load_root")
    if ctx is None:
        chk.anchor_missing("R1", "tough::load_root")
        return
    chk.analysed_body(ctx.body)
    f = ctx.fn
    cfg = ctx.cfg
    parses = sorted(ctx.calls(*SER_PARSE), key=lambda x: x[0])
    if not chk.floor("R1", len(parses), 2, "root parse sites (shipped, fetched)"):
        return
    O = lambda bb, t: Origin("call", (bb, strip_generics(t.resolved or t.callee)), (), t)
    shipped = O(*parses[0])
    fetched = [O(*p) for p in parses[1:]]
    docs = {shipped} | set(fetched)
    # R1: self-verification of the shipped root precedes every fetch and every exit with Ok
    selfv = []
    for bb, t in ctx.calls(ROOT_VERIFY, wrappers=True):
        og = ctx.origins.of_operand(t.args[1], at=bb)
        ro = ctx.origins.of_operand(t.args[0], at=bb)
        if og == {shipped} and ro and all(base(o) == shipped and o.fields == ("signed",) for o in ro):
            selfv.extend(ctx.track_call(bb).pos_edges(0))
    fetches = [bb for bb, _ in ctx.calls(FETCH_MAX)]
    chk.floor("R1-fetch", len(fetches), 1, "fetch_max_size calls in load_root")
    targets = fetches + ctx.ok_return_blocks()
    p = cfg.witness_path(targets, selfv)
    chk.require(bool(selfv) and p is None, "R1", f, "shipped-root-self-verified",
                "a newer root is fetched (or Ok returned) on a path where the shipped root was not verified "
                "under its own keys", ctx.site(parses[0][0]), path=ctx.describe_path(p))
    # adoption sites: `root = new_root`
    adopt = []
    for b in ctx.body.blocks:
        if b.cleanup:
            continue
        for s in b.stmts:
            if s.k == "assign" and s.rv.k == "use" and not s.place.proj and s.rv.ops[0].place is not None \
                    and ctx.body.locals[s.place.local]["ty"].startswith("tough::schema::Signed<tough::schema::Root>"):
                src = ctx.origins.of_operand(s.rv.ops[0])
                dst_all = ctx.origins.of_local(s.place.local)
                if src and src <= set(fetched) and len(dst_all) > 1 and not _dominates_other_defs(ctx, s.place.local, b.idx):
                    adopt.append((b.idx, s, src))
    if not chk.require(len(adopt) >= 1, "R2", f, "adoption-site",
                       "unrecognised-idiom: no assignment that makes a fetched root the trusted root", site_of(ctx.body.span)):
        return
    for abb, s, src in adopt:
        asite = site_of(s.sp)
        new = src
        cur_var = s.place.local
        is_new = lambda o: base(o) in new
        # (i) signed by the keys of the root currently trusted (loop variable: several origins)
        e_old, e_new = [], []
        for bb, t in ctx.calls(ROOT_VERIFY, wrappers=True):
            og = ctx.origins.of_operand(t.args[1], at=bb)
            ro = ctx.origins.of_operand(t.args[0], at=bb)
            if not og or not all(is_new(o) for o in og) or not ro:
                continue
            rb = set(base(o) for o in ro)
            if all(o.fields == ("signed",) for o in ro):
                if rb == docs or (shipped in rb and rb & set(fetched)):
                    e_old.extend(ctx.track_call(bb).pos_edges(0))
                elif rb <= new:
                    e_new.extend(ctx.track_call(bb).pos_edges(0))
        for label, edges, what in (
                ("signed-by-current-root", e_old, "verify_role(<root currently trusted>.signed, &new_root) succeeded"),
                ("signed-by-own-keys", e_new, "verify_role(new_root.signed, &new_root) succeeded")):
            p = cfg.witness_path([abb], edges)
            chk.require(bool(edges) and p is None, "R2", f, label,
                        "a fetched root becomes the trusted root on a path that does not pass the edge on which "
                        + what, asite, path=ctx.describe_path(p))
        # (iii)/(iv) version tests
        cur_v = lambda o: base(o) in docs and o.fields == ("signed", "version")
        new_v = lambda o: base(o) in new and o.fields == ("signed", "version")
        le_edges, ne_edges, eq_break = [], [], []
        for (bb, op, a, b_, tr, sp) in ctx.comparisons():
            oa = ctx.origins.of_operand(a, at=bb)
            ob = ctx.origins.of_operand(b_, at=bb)
            if not oa or not ob:
                continue
            a_cur = all(cur_v(o) for o in oa) and len(set(base(o) for o in oa)) > 1
            b_cur = all(cur_v(o) for o in ob) and len(set(base(o) for o in ob)) > 1
            a_new = all(new_v(o) for o in oa)
            b_new = all(new_v(o) for o in ob)
            if not ((a_cur and b_new) or (a_new and b_cur)):
                continue
            if op in ("le", "lt", "ge", "gt"):
                edges, strict = normalise_le(op, a_cur, tr)
                le_edges.extend(edges or [])
            elif op in ("eq", "ne"):
                ne_edges.extend(tr.neg_edges(0) if op == "eq" else tr.pos_edges(0))
                eq_break.extend(tr.pos_edges(0) if op == "eq" else tr.neg_edges(0))
        p = cfg.witness_path([abb], le_edges)
        chk.require(bool(le_edges) and p is None, "R2", f, "version-not-lower",
                    "a fetched root becomes the trusted root on a path that does not pass the edge "
                    "current.version <= new.version", asite, path=ctx.describe_path(p))
        p = cfg.witness_path([abb], ne_edges)
        chk.require(bool(ne_edges) and p is None, "R2", f, "version-not-equal",
                    "a fetched root of the SAME version can become the trusted root (no forward progress: the "
                    "walk must stop instead)", asite, path=ctx.describe_path(p))
        r3_exits(chk, ctx, abb, eq_break)
    # the function returns the loop variable
    ret = set()
    for b in ctx.body.blocks:
        for s in b.stmts:
            if s.k == "assign" and s.place.local == 0 and s.rv.k == "agg" and s.rv.j.get("variant") == "Ok":
                ret |= ctx.origins.of_operand(s.rv.ops[0])
    chk.require(ret == docs, "R3", f, "returns-last-trusted-root",
                "load_root returns %s, expected the variable holding the shipped root or the last adopted one"
                % sorted(map(repr, ret)))
    r5_name(chk, ctx, docs)
    r4_load(chk, prog)
    from .c06 import SubCheck
    from . import c01
    c01.verifier(SubCheck(chk, "R6"), prog, ROOT_VERIFY, "root")
    r7_file_not_found(chk, prog)


def r7_file_not_found(chk, prog):
    """the walk stops 'at the first version that is unavailable': for file:// repositories the built-in
    transport reports a missing file — and nothing else — as FileNotFound (the http side of this is
    C18-R1); otherwise a complete chain ends in an error, or an unreadable file ends the walk silently"""
    fam = [b for b in prog.bodies.values()
           if b.path.startswith("<tough::transport::FilesystemTransport as tough::transport::Transport>::fetch")]
    if not fam:
        chk.anchor_missing("R7", "<tough::transport::FilesystemTransport as tough::transport::Transport>::fetch")
        return
    K = "tough::transport::TransportErrorKind"
    n = 0
    for b in fam:
        ctx = ctx_of(prog, b.path)
        fnf = [blk.idx for blk in b.blocks for s_ in blk.stmts
               if s_.k == "assign" and s_.rv.k == "agg" and s_.rv.j.get("adt") == K and s_.rv.j.get("variant") == "FileNotFound"]
        if not fnf:
            continue
        chk.analysed_body(b)
        n += 1
        nf_edges, other_edges = [], []
        for blk in b.blocks:
            for s_ in blk.stmts:
                if s_.k == "assign" and s_.rv.k == "discr" and s_.rv.j.get("adt") == "core::io::error::ErrorKind":
                    src = ctx.origins.of_place(s_.rv.place)
                    if not (src and all(is_call(o, "std::io::Error::kind", "std::io::error::Error::kind") for o in src)):
                        continue
                    for sw in ctx.tracker._switch_on(s_.place.local, blk.idx):
                        vars_ = s_.rv.j["vars"]
                        for v, d in sw.term.tv:
                            (nf_edges if vars_.get(str(v)) == "NotFound" else other_edges).append((sw.idx, d, v))
                        other_edges.append((sw.idx, sw.term.otherwise, "otherwise"))
        p = ctx.cfg.witness_path(fnf, nf_edges)
        chk.require(bool(nf_edges) and p is None, "R7", short_fn(b.path), "file-not-found-only-for-missing-file",
                    "FilesystemTransport reports FileNotFound on a path that did not see io::ErrorKind::NotFound: an "
                    "unreadable file would end the root walk as if no newer root existed", site_of(b.span),
                    path=ctx.describe_path(p))
        r = ctx.cfg.reach_from_edges(nf_edges) if nf_edges else set()
        others = [blk.idx for blk in b.blocks for s_ in blk.stmts
                  if s_.k == "assign" and s_.rv.k == "agg" and s_.rv.j.get("adt") == K and s_.rv.j.get("variant") != "FileNotFound"]
        chk.require(not (r & set(others)) and bool(r & set(fnf)), "R7", short_fn(b.path), "missing-file-is-file-not-found",
                    "a missing file is not reported as FileNotFound: a complete root chain would end in an error "
                    "instead of stopping at the first unavailable version", site_of(b.span))
    chk.floor("R7", n, 1, "FileNotFound construction in FilesystemTransport::fetch")


def r3_exits(chk, ctx, abb, eq_break):
    f = ctx.fn
    cfg = ctx.cfg
    loop = next((c for c in cfg.sccs() if abb in c), None)
    if not chk.require(loop is not None, "R3", f, "adoption-in-loop",
                       "the adoption of a newer root is not inside a loop: only one hop would be followed"):
        return
    okb = set(ctx.ok_return_blocks())
    can_ok = cfg.backward_reach(okb)
    exits = [e for e in cfg.edges() if e[0] in loop and e[1] not in loop and e[1] in can_ok]
    allowed = set(eq_break)
    # fetch failed
    for bb, t in ctx.calls(FETCH_MAX):
        if bb in loop:
            allowed |= set(ctx.track_call(bb).neg_edges(0))
    # FileNotFound while collecting the stream
    for (bb, op, a, b_, tr, sp) in ctx.comparisons():
        if bb not in loop or op not in ("eq", "ne"):
            continue
        og = ctx.origins.of_operand(a) | ctx.origins.of_operand(b_)
        if any(o.kind == "agg" and o.key[2].endswith("TransportErrorKind::FileNotFound") for o in og) and \
                any(is_call(o, "tough::transport::TransportError::kind") for o in og):
            allowed |= set(tr.pos_edges(0) if op == "eq" else tr.neg_edges(0))
    bad = []
    for e in exits:
        # an exit edge is allowed if it is one of the allowed edges, or every path to it from the loop
        # passed one of them (e.g. `break` lowered through a goto block)
        if e in allowed:
            continue
        r = cfg.reach([0], removed_edges=allowed)
        if e[0] in r:
            bad.append(e)
    chk.require(not bad and bool(exits), "R3", f, "loop-exits",
                "the root walk can stop (and load_root succeed) for a reason other than: fetch error, file not "
                "found, or equal version — e.g. after a verification failure: exit edges %s" % bad,
                site_of(ctx.body.blocks[bad[0][0]].term.sp) if bad else None,
                detail="normal exits=%d allowed edges=%d" % (len(exits), len(allowed)))
    # bounded: the max_root_updates guard dominates the fetch (details in C09)


def r5_name(chk, ctx, docs):
    f = ctx.fn
    joins = ctx.calls("url::Url::join")
    ok = False
    for bb, t in joins:
        for pieces, dbb in templates_of(ctx, t.args[1]):
            sh = shape(pieces)
            if sh == 'VERSION".root.json"':
                vo = pieces[0][2]
                good = bool(vo)
                for o in vo:
                    if o.kind != "bin" or not o.key[2].startswith("Add"):
                        good = False
                        continue
                    ops = o.extra.rv.ops
                    one = any(x.is_const and x.const_int == 1 for x in ops)
                    cur = False
                    for x in ops:
                        if not x.is_const:
                            og = ctx.origins.of_operand(x, at=o.key[0])
                            cur = bool(og) and all(base(y) in docs and y.fields == ("signed", "version") for y in og) \
                                and len(set(base(y) for y in og)) > 1
                    good = good and one and cur
                ok = ok or good
    chk.require(ok, "R5", f, "next-version-file",
                "the file requested in the root walk is not `<version of the root currently trusted + 1>.root.json`",
                ctx.site(joins[0][0]) if joins else None)


def r4_load(chk, prog):
    ctx = async_body(prog, "tough::Repository::load")
    if ctx is None:
        chk.anchor_missing("R4", "tough::Repository::load")
        return
    chk.analysed_body(ctx.body)
    n = 0
    for fn in ("tough::load_timestamp", "tough::load_snapshot", "tough::load_targets"):
        for bb, t in ctx.calls(fn):
            n += 1
            og = ctx.origins.of_operand(t.args[1])
            chk.require(only_calls(og, "tough::load_root"), "R4", ctx.fn, "final-root-to-" + fn.split("::")[-1],
                        "%s is not given the root returned by load_root: %s" % (fn, sorted(map(repr, og))), ctx.site(bb))
    chk.floor("R4", n, 3, "loader calls in Repository::load")
    # the Repository keeps that root
    for b in ctx.body.blocks:
        for s in b.stmts:
            if s.k == "assign" and s.rv.k == "agg" and s.rv.j.get("adt") == "tough::Repository":
                names = s.rv.j["fields"]
                og = ctx.origins.of_operand(s.rv.ops[names.index("root")])
                chk.require(only_calls(og, "tough::load_root"), "R4", ctx.fn, "repository-keeps-final-root",
                            "Repository.root is not the root returned by load_root", site_of(s.sp))
