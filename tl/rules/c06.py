"""C06 — target bytes delivered to the caller are exactly the signed content."""
from .common import *
from . import c05, c09
from ..templates import template_of_origin, shape

P = "tough::cache::<impl tough::Repository>::"
FIND = "tough::schema::Targets::find_target"
FETCH_TARGET = P + "fetch_target"
TDF = P + "target_digest_and_filename"


def run(chk, prog):
    chk.rules_live = ["R1", "R2", "R3", "R4", "R5", "R6"]
    chk.explanation = (
        "Provenance rules over MIR: read_target returns Some(stream) only with stream = fetch_target("
        "entry, digest, file) where entry is the Ok payload of find_target(name) on the trusted targets "
        "and digest/file come from target_digest_and_filename(entry, name); fetch_target is "
        "fetch_sha256(targets_base_url.join(file), entry.length, .., digest); the digest is "
        "entry.hashes.sha256 and the file name is RESOLVED / HEX(sha256).RESOLVED exactly under "
        "consistent_snapshot; targets_base_url is read only by fetch_target; plus the adapter rules of "
        "C05 (chunk passed on only while size <= bound, end of stream only on digest equality) and the "
        "who-may-fetch rule of C09. R6: the entry whose digest and length are enforced is the one "
        "find_target selects — C07's lookup obligations (own entry first, delegates in listed order, "
        "path match before descent) are re-evaluated here.")
    chk.not_decided = ["run-time chunking (the adapter rules are per chunk and hold for any chunking)",
                       "that callers stop using data after an Err item"]
    chk.assumptions = ["aws-lc-rs SHA-256"]
    ctx = async_body(prog, "tough::Repository::read_target")
    if ctx is None:
        chk.anchor_missing("R1", "tough::Repository::read_target")
        return
    chk.analysed_body(ctx.body)
    f = ctx.fn
    finds = ctx.calls(FIND)
    fts = ctx.calls(FETCH_TARGET)
    tdfs = ctx.calls(TDF)
    chk.floor("R1", len(finds) + len(fts) + len(tdfs), 3, "find_target / target_digest_and_filename / fetch_target calls")
    # what is returned inside Some(..)
    some_vals = set()
    for b in ctx.body.blocks:
        for s in b.stmts:
            if s.k == "assign" and s.rv.k == "agg" and s.rv.j.get("adt") == "core::option::Option" and s.rv.j.get("variant") == "Some":
                some_vals |= ctx.origins.of_operand(s.rv.ops[0])
    chk.require(only_calls(some_vals, FETCH_TARGET), "R1", f, "stream-is-fetch_target",
                "read_target returns Some(..) of %s; only the verified fetch_target stream may be returned" % sorted(map(repr, some_vals)))
    for bb, t in finds:
        recv = ctx.origins.of_operand(t.args[0])
        nm = ctx.origins.of_operand(t.args[1])
        chk.require(bool(recv) and all(o.fields == ("targets", "signed") for o in recv) and
                    bool(nm) and all(o.kind in ("upvar", "param") and o.key[1] == "name" for o in nm),
                    "R1", f, "lookup-in-trusted-targets", "find_target is not self.targets.signed.find_target(name)", ctx.site(bb))
    find_bbs = set(bb for bb, _ in finds)
    is_entry = lambda og: bool(og) and all(o.kind == "call" and o.key[0] in find_bbs and not o.fields for o in og)
    tdf_bbs = set(bb for bb, _ in tdfs)
    for bb, t in tdfs:
        chk.require(is_entry(ctx.origins.of_operand(t.args[1])) and
                    all(o.kind in ("upvar", "param") and o.key[1] == "name" for o in ctx.origins.of_operand(t.args[2])),
                    "R1", f, "digest-and-name-of-found-entry",
                    "target_digest_and_filename is not applied to the entry returned by find_target and `name`", ctx.site(bb))
    for bb, t in fts:
        e = ctx.origins.of_operand(t.args[1])
        d = ctx.origins.of_operand(t.args[2])
        fl = ctx.origins.of_operand(t.args[3])
        ok = is_entry(e) and bool(d) and all(o.kind == "call" and o.key[0] in tdf_bbs for o in d) and \
            bool(fl) and all(o.kind == "call" and o.key[0] in tdf_bbs for o in fl)
        chk.require(ok, "R1", f, "fetch-uses-found-entry",
                    "fetch_target is given (entry=%s, digest=%s, file=%s): the authorised entry found by "
                    "find_target must decide length, digest and file name" % (sorted(map(repr, e)), sorted(map(repr, d)), sorted(map(repr, fl))), ctx.site(bb))
        pos = []
        for fb, ft in finds:
            pos.extend(ctx.track_call(fb).pos_edges(0))
        p = ctx.cfg.witness_path([bb], pos)
        chk.require(bool(pos) and p is None, "R1", f, "fetch-only-when-found",
                    "fetch_target is reachable without find_target having returned Ok", ctx.site(bb), path=ctx.describe_path(p))
    # R2 fetch_target
    fctx = async_body(prog, FETCH_TARGET)
    if fctx is None:
        chk.anchor_missing("R2", FETCH_TARGET)
    else:
        chk.analysed_body(fctx.body)
        shas = fctx.calls(c05.FETCH_SHA)
        chk.floor("R2", len(shas), 1, "fetch_sha256 call in fetch_target")
        for bb, t in shas:
            size = fctx.origins.of_operand(t.args[2])
            dig = fctx.origins.of_operand(t.args[4])
            url = fctx.origins.of_operand(t.args[1])
            chk.require(bool(size) and all(o.kind in ("upvar", "param") and o.key[1] == "target" and o.fields == ("length",) for o in size),
                        "R2", fctx.fn, "size-is-signed-length", "the target stream is not capped at target.length: %s" % sorted(map(repr, size)), fctx.site(bb))
            chk.require(bool(dig) and all(o.kind in ("upvar", "param") and o.key[1] == "digest" and not o.fields for o in dig),
                        "R2", fctx.fn, "digest-is-argument", "the target stream is not checked against the `digest` argument: %s" % sorted(map(repr, dig)), fctx.site(bb))
            okurl = only_calls(url, "url::Url::join")
            if okurl:
                for o in url:
                    r = fctx.origins.of_operand(o.extra.args[0])
                    n = fctx.origins.of_operand(o.extra.args[1])
                    okurl = okurl and all(x.fields[-1:] == ("targets_base_url",) for x in r) and \
                        all(x.kind in ("upvar", "param") and x.key[1] == "filename" for x in n)
            chk.require(okurl, "R2", fctx.fn, "url-is-targets-base-join-file", "the fetched URL is not targets_base_url.join(filename)", fctx.site(bb))
        ret = set()
        for b in fctx.body.blocks:
            for s in b.stmts:
                if s.k == "assign" and s.place.local == 0 and s.rv.k == "agg" and s.rv.j.get("variant") == "Ok":
                    ret |= set(o for o in deep_origins(fctx, s.rv.ops[0], 4) if o.kind == "call" and (is_call(o, c05.FETCH_SHA, c05.FETCH_MAX, c09.TFETCH)))
        chk.require(only_calls(ret, c05.FETCH_SHA), "R2", fctx.fn, "returns-digest-checked-stream",
                    "fetch_target returns a stream that is not the fetch_sha256 stream: %s" % sorted(map(repr, ret)))
    # R3 digest and file name
    tctx = ctx_of(prog, TDF)
    if tctx is None:
        chk.anchor_missing("R3", TDF)
    else:
        chk.analysed_body(tctx.body)
        shapes = set()
        digs = set()
        for b in tctx.body.blocks:
            for s in b.stmts:
                if s.k == "assign" and s.place.local == 0 and s.rv.k == "agg" and s.rv.j.get("ak") == "tuple":
                    digs |= deep_origins(tctx, s.rv.ops[0], 3)
                    for o in tctx.origins.of_operand(s.rv.ops[1]):
                        pieces, dbb = template_of_origin(tctx, o)
                        shapes.add(shape(pieces))
                        for pc in pieces:
                            if pc[0] == "val" and pc[1] == "HEX":
                                hx = set()
                                for x in pc[2]:
                                    hx |= deep_origins(tctx, x.extra.args[0], 3)
                                chk.require(any(y.fields == ("hashes", "sha256") and y.kind == "param" for y in hx), "R3", tctx.fn,
                                            "prefix-is-own-sha256", "the hex prefix is not the target's own sha256")
                            if pc[0] == "val" and pc[1] == "RESOLVED":
                                nm = set()
                                for x in pc[2]:
                                    nm |= tctx.origins.of_operand(x.extra.args[0])
                                chk.require(all(y.kind == "param" and y.key[1] == "name" for y in nm), "R3", tctx.fn,
                                            "name-is-argument", "the file name is not derived from the `name` argument")
        chk.require(shapes == {'RESOLVED', 'HEX"."RESOLVED'}, "R3", tctx.fn, "file-name-templates",
                    "target file names are %s, expected RESOLVED and HEX\".\"RESOLVED" % sorted(shapes))
        chk.require(any(o.kind == "param" and o.fields == ("hashes", "sha256") for o in digs) and
                    not any(o.kind == "param" and o.fields and o.fields[0] != "hashes" for o in digs),
                    "R3", tctx.fn, "digest-is-signed-sha256", "the digest returned is not target.hashes.sha256")
        te, fe = c05.consistent_switch(tctx, c05.cs_pred)
        chk.require(bool(te) and bool(fe), "R3", tctx.fn, "prefix-iff-consistent-snapshot",
                    "no branch on consistent_snapshot selects between the prefixed and the plain file name")
        hex_blocks, plain_blocks = [], []
        for b in tctx.body.blocks:
            for s in b.stmts:
                if s.k == "assign" and s.place.local == 0 and s.rv.k == "agg" and s.rv.j.get("ak") == "tuple":
                    shs = set(shape(template_of_origin(tctx, o)[0]) for o in tctx.origins.of_operand(s.rv.ops[1]))
                    (hex_blocks if shs == {'HEX"."RESOLVED'} else plain_blocks).append(b.idx)
        p1 = tctx.cfg.witness_path(hex_blocks, te)
        p2 = tctx.cfg.witness_path(plain_blocks, fe)
        chk.require(bool(hex_blocks) and bool(plain_blocks) and p1 is None and p2 is None, "R3", tctx.fn,
                    "prefixed-exactly-when-consistent",
                    "the digest-prefixed file name is not selected exactly on the consistent_snapshot == true edge "
                    "(and the plain one on the false edge)", path=tctx.describe_path(p1 or p2))
    # R4 who may read targets_base_url
    readers = set()
    for b in prog.bodies.values():
        if "/.cargo/" in b.file or not b.path.startswith("tough::") or b.path.startswith("tough::editor"):
            continue
        if "RepositoryLoader" in b.path or "core::clone::Clone" in b.path or "core::fmt::Debug" in b.path:
            continue
        for blk in b.blocks:
            if blk.cleanup:
                continue
            places = []
            for s in blk.stmts:
                if s.rv is not None:
                    if s.rv.place is not None:
                        places.append(s.rv.place)
                    places.extend(o.place for o in s.rv.ops if o.place is not None)
            for pl in places:
                if "targets_base_url" in pl.fields():
                    readers.add(root_fn(b.path))
    readers.discard("tough::Repository::load")
    chk.require(readers == {FETCH_TARGET}, "R4", "tough::Repository", "who-reads-targets_base_url",
                "targets_base_url is read in %s; target bytes must only be obtained through fetch_target" % sorted(readers))
    # R5: adapters + composition + who may fetch (shared with C05/C09)
    sub = SubCheck(chk, "R5")
    c05.r4_adapters(sub, prog)
    c05.r5_composition(sub, prog)
    c09.r1_who_may_fetch(sub, prog)
    from . import c07
    c07.run(SubCheck(chk, "R6"), prog)


class SubCheck:
    """re-labels the obligations of shared rule functions under this property's rule id"""

    def __init__(self, chk, rule):
        self.chk = chk
        self.rule = rule

    def __getattr__(self, name):
        return getattr(self.chk, name)

    def ok(self, rule, *a, **k):
        return self.chk.ok(self.rule, *a, **k)

    def fail(self, rule, *a, **k):
        return self.chk.fail(self.rule, *a, **k)

    def require(self, cond, rule, *a, **k):
        return self.chk.require(cond, self.rule, *a, **k)

    def floor(self, rule, *a, **k):
        return self.chk.floor(self.rule + "-" + rule, *a, **k)

    def anchor_missing(self, rule, *a, **k):
        return self.chk.anchor_missing(self.rule, *a, **k)
