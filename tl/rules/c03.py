"""C03 — rollback protection across update cycles sharing a datastore (DESIGN §4 C03)."""
from .common import *

LOADERS = [
    ("tough::load_timestamp", "timestamp.json"),
    ("tough::load_snapshot", "snapshot.json"),
    ("tough::load_targets", "targets.json"),
]
BYTES = "tough::datastore::Datastore::bytes"
CREATE = "tough::datastore::Datastore::create"
REMOVE = "tough::datastore::Datastore::remove"
VERIFY = ("tough::schema::verify::<impl tough::schema::Root>::verify_role",)


_SH = {}


def stored_helper(prog, callee):
    """file-parameter index if the crate-local function `callee` returns (as the payload of its
    Ok/Some) nothing but a document parsed from Datastore::bytes(.., <its file parameter>) — the
    "read the stored copy" helper; None otherwise (one level)"""
    key = (id(prog), callee)
    if key in _SH:
        return _SH[key]
    _SH[key] = None
    if not callee or not callee.startswith("tough::") or "{closure" in callee or callee.startswith("tough::datastore::"):
        return None
    hctx = async_body(prog, callee)
    if hctx is None or len(hctx.body.blocks) > 300:
        return None
    reads = hctx.calls(BYTES)
    if not reads:
        return None
    idx = set()
    for bb, t in reads:
        og = hctx.origins.of_operand(t.args[1])
        if len(og) != 1:
            return None
        idx.add(param_index_of_origin(prog, hctx, next(iter(og))))
    if len(idx) != 1 or None in idx:
        return None
    docs = [o for o in fetched_origin(hctx) if o.kind == "call"]
    if not docs or not all(stored_origin(hctx, base(o)) for o in docs):
        return None
    _SH[key] = idx.pop()
    return _SH[key]


def stored_reads(ctx, filename=None):
    """sites that read the stored copy: (bb, terminator, nesting level of the document in the result)
    — Datastore::bytes(..) itself (Result<Option<bytes>> then parsed: level 3) or a stored_helper
    (Result<Option<document>>: level 2)"""
    out = []
    for bb, t in ctx.body.calls():
        if t.is_call_to(BYTES):
            if filename is None or ctx.const_str_of(t.args[1]) == filename:
                out.append((bb, t, 3))
            continue
        callee = t.resolved or t.callee
        i = stored_helper(ctx.prog, strip_generics(callee) if callee else callee)
        if i is not None and i < len(t.args):
            if filename is None or ctx.const_str_of(t.args[i]) == filename:
                out.append((bb, t, 2))
    return out


def rollback_site(prog, ctx, filename, doc_origins=None):
    """where the stored copy of `filename` is read for the loader `ctx`: (ctx, None, None) when the
    loader does it itself, or (helper ctx, (bb, call), k) when a crate-local function called by the
    loader does (one level) — k = index of the argument through which the loader hands it the
    document whose origins are `doc_origins` (None if not identifiable); None if nowhere"""
    if stored_reads(ctx, filename):
        return ctx, None, None
    for bb, t in ctx.body.calls():
        callee = t.resolved or t.callee
        if not callee or not callee.startswith("tough::") or "{closure" in callee or callee.startswith("tough::datastore::"):
            continue
        hctx = async_body(prog, strip_generics(callee))
        if hctx is None or hctx is ctx or not stored_reads(hctx, filename):
            continue
        k = None
        if doc_origins:
            for i, a in enumerate(t.args):
                if ctx.origins.of_operand(a) == doc_origins:
                    k = i
        return hctx, (bb, t), k
    return None


def stored_origin(ctx, o, filename=None):
    """is origin `o` a document parsed from datastore bytes (optionally of `filename`)?"""
    if o.kind != "call":
        return False
    t = o.extra
    i = stored_helper(ctx.prog, o.key[1]) if not path_match(o.key[1], BYTES) else None
    if i is not None and t is not None and i < len(t.args):
        return filename is None or ctx.const_str_of(t.args[i]) == filename
    if path_match(o.key[1], "core::option::Option::map") or any(path_match(o.key[1], p) for p in SER_PARSE):
        srcs = ctx.origins.of_operand(t.args[0])
        bs = root_calls(srcs, BYTES)
        if not srcs or len(bs) != len(srcs):
            return False
        if filename is not None:
            for b in bs:
                if ctx.const_str_of(b.extra.args[1]) != filename:
                    return False
        return True
    return False


def fetched_origin(ctx):
    """the parse site(s) of the document the function returns"""
    out = set()
    for b in ctx.body.blocks:
        if b.cleanup:
            continue
        for s in b.stmts:
            if s.k == "assign" and s.place.local == 0 and not s.place.proj and s.rv.k == "agg" \
                    and s.rv.j.get("variant") == "Ok":
                for o in ctx.origins.of_operand(s.rv.ops[0]):
                    out.add(o)
    return out


def skip_edges(ctx, filename):
    """edges on which the stored reference is absent / unparsable / no longer verifies"""
    S = []
    info = []
    for bb, t, _lvl in stored_reads(ctx, filename):
        tr = ctx.track_call(bb)
        # level 0 is the io Result (its Err edge propagates the error: not a skip edge, but
        # removing it is harmless — it cannot lead to `create`)
        S.extend(tr.all_neg_edges())
        info.append((bb, tr))
    for bb, t in ctx.calls(*VERIFY, wrappers=True):
        if len(t.args) < 2:
            continue
        og = ctx.origins.of_operand(t.args[1])
        if og and all(stored_origin(ctx, o, filename) for o in og):
            tr = ctx.track_call(bb)
            S.extend(tr.all_neg_edges())
    return S, info


def version_guard(ctx, filename, fetched, small_fields, big_fields, small_pred, big_pred):
    """comparisons that enforce small <= big; returns list of (bb, edges, strict, site)"""
    out = []
    for (bb, op, a, b, tr, sp) in ctx.comparisons():
        oa = ctx.origins.of_operand(a)
        ob = ctx.origins.of_operand(b)
        a_small = oa and all(small_pred(o) for o in oa)
        b_big = ob and all(big_pred(o) for o in ob)
        a_big = oa and all(big_pred(o) for o in oa)
        b_small = ob and all(small_pred(o) for o in ob)
        if a_small and b_big:
            edges, strict = normalise_le(op, True, tr)
        elif a_big and b_small:
            edges, strict = normalise_le(op, False, tr)
        else:
            continue
        out.append((bb, op, edges, strict, sp, (a_small and b_big)))
    return out


def run(chk, prog):
    chk.rules_live = ["R1", "R2", "R3", "R4", "R5", "R6", "R7"]
    chk.explanation = (
        "Static must-pass-through rules over the MIR control-flow graphs of load_timestamp/"
        "load_snapshot/load_targets/load_root: datastore.create(F) is unreachable from the entry "
        "once the edge 'stored.version <= fetched.version' and the skip edges (no stored file / "
        "unparsable / no longer verifies) are removed; operands are identified by value origin "
        "(datastore bytes vs. the returned document). Decides the structure of the rollback "
        "check for every input and history at once; does not decide version arithmetic or "
        "tampering with the datastore directory.")
    chk.not_decided = ["datastore directory tampering", "arithmetic of version numbers",
                       "histories as such (the rules are per cycle; the cross-cycle argument is by "
                       "induction on 'what create() stores was checked against what bytes() read')"]
    chk.assumptions = ["rustc MIR (mir_built) is faithful to the source",
                       "serde_json::from_slice / HashMap::get / NonZero ordering behave as documented"]
    n_r1 = 0
    for fn, fname in LOADERS:
        ctx = async_body(prog, fn)
        if ctx is None:
            chk.anchor_missing("R1", fn)
            continue
        chk.analysed_body(ctx.body)
        f = ctx.fn
        creates = ctx.calls(CREATE, arg_const={1: fname})
        if not creates:
            chk.anchor_missing("R1", f, "no Datastore::create(%r)" % fname)
            continue
        create_blocks = [bb for bb, _ in creates]
        fetched = fetched_origin(ctx)
        parse_sites = root_calls(fetched, *SER_PARSE)
        if not fetched or len(parse_sites) != len(fetched):
            chk.fail("R3", f, "returned-document", "unrecognised-idiom: the returned document does not "
                     "originate from a parse site: %s" % sorted(map(repr, fetched)))
            continue
        S, info = skip_edges(ctx, fname)
        lctx, lcreates = ctx, create_blocks
        is_fetched = lambda o: o.kind == "call" and base(o) in fetched and o.fields == ("signed", "version")
        if not info:
            # the whole rollback check may live in a helper the loader calls (one level): then the helper's Ok
            # return plays the part of `create`, its parameter the part of the fetched document, and the
            # loader must reach `create` only through the Ok edge of that call
            site = rollback_site(prog, ctx, fname, fetched)
            if site is None or site[1] is None or site[2] is None:
                chk.fail("R1", f, fname, "the stored %s is never read back: no rollback reference "
                         "(Datastore::bytes(%r) not called)" % (fname, fname), ctx.site(create_blocks[0]))
                continue
            hctx, (hbb, ht), k = site
            chk.analysed_body(hctx.body)
            hpos = ctx.track_call(hbb).pos_edges(0)
            ph = ctx.cfg.witness_path(create_blocks, hpos)
            chk.require(bool(hpos) and ph is None, "R1", f, fname + ":via-" + short_fn(hctx.body.path).split("::")[-1],
                        "Datastore::create(%r) is reachable without the rollback check in %s having succeeded"
                        % (fname, short_fn(hctx.body.path)), ctx.site(create_blocks[0]), path=ctx.describe_path(ph))
            ctx = hctx
            create_blocks = hctx.ok_return_blocks()
            S, info = skip_edges(ctx, fname)
            is_fetched = lambda o, hctx=hctx, k=k: o.kind in ("param", "upvar") and \
                param_index_of_origin(prog, hctx, base(o)) == k and o.fields == ("signed", "version")
            if not info or not create_blocks:
                chk.fail("R1", f, fname, "unrecognised-idiom: rollback helper %s" % short_fn(hctx.body.path), hctx.site(0))
                ctx, create_blocks = lctx, lcreates
                continue
        n_r1 += 1
        is_stored = lambda o: stored_origin(ctx, o, fname) and o.fields == ("signed", "version")
        guards = version_guard(ctx, fname, fetched, None, None, is_stored, is_fetched)
        T = []
        for (bb, op, edges, strict, sp, _) in guards:
            if strict == "lt":
                chk.fail("R1", f, fname + ":strict", "the version check rejects an EQUAL version "
                         "(operator %s): a client would be locked out of an unchanged repository" % op,
                         site_of(sp))
            T.extend(edges)
        path = ctx.cfg.witness_path(create_blocks, set(S) | set(T))
        chk.require(path is None, "R1", f, fname,
                    "Datastore::create(%r) is reachable without passing the edge on which "
                    "stored.signed.version <= fetched.signed.version holds (and without the "
                    "stored file being absent/unparsable/unverifiable)" % fname,
                    ctx.site(create_blocks[0]),
                    detail="guards=%d skip_edges=%d" % (len(guards), len(S)),
                    path=ctx.describe_path(path))
        # R7: the skip edges really skip — from "no stored file", "unparsable" and "no longer verifies" the
        # new document can still be persisted (otherwise a key/threshold change locks the client out for good)
        cats = {"absent-or-unparsable": [], "no-longer-verifies": []}
        for bb_, tr_ in info:
            cats["absent-or-unparsable"].extend(e for br in tr_.branches if br.level >= 1 and br.kind != "Poll" for e in br.neg)
        for vb, vt in ctx.calls(*VERIFY, wrappers=True):
            og_ = ctx.origins.of_operand(vt.args[1])
            if og_ and all(stored_origin(ctx, o, fname) for o in og_):
                cats["no-longer-verifies"].extend(ctx.track_call(vb).all_neg_edges())
        for cat, edges_ in cats.items():
            r_ = ctx.cfg.reach_from_edges(edges_) if edges_ else set()
            chk.require(bool(edges_) and bool(r_ & set(create_blocks)), "R7", f, fname + ":" + cat + "-is-skipped",
                        "when the stored %s is %s the cycle cannot complete (the new document is never persisted): a "
                        "repository that moves forward after a key or threshold change would be refused for ever"
                        % (fname, cat.replace("-", " ")), ctx.site(create_blocks[0]))
        ctx, create_blocks = lctx, lcreates
        # R3: what is persisted is the verified, returned document; Ok is returned only after create
        for bb, t in creates:
            og = ctx.origins.of_operand(t.args[2])
            chk.require(og == fetched, "R3", f, "persisted-is-returned",
                        "the value persisted as %r (%s) is not the document that is returned (%s)"
                        % (fname, sorted(map(repr, og)), sorted(map(repr, fetched))), ctx.site(bb))
            pos = ctx.track_call(bb).pos_edges(0)
            okb = ctx.ok_return_blocks()
            p2 = ctx.cfg.witness_path(okb, pos)
            chk.require(p2 is None and bool(pos), "R3", f, "ok-after-create",
                        "Ok is returned on a path that does not persist %r successfully" % fname,
                        ctx.site(bb), path=ctx.describe_path(p2))
        # the verify_role of the fetched document must precede create
        vs = []
        for bb, t in ctx.calls(*VERIFY, wrappers=True):
            if len(t.args) >= 2 and ctx.origins.of_operand(t.args[1]) == fetched:
                vs.extend(ctx.track_call(bb).pos_edges(0))
        p3 = ctx.cfg.witness_path(create_blocks, vs)
        chk.require(p3 is None and bool(vs), "R3", f, "create-after-verify",
                    "%r is persisted on a path that does not pass the Ok edge of verify_role on "
                    "the fetched document" % fname, ctx.site(create_blocks[0]), path=ctx.describe_path(p3))
        if fname == "snapshot.json":
            r2_snapshot(chk, ctx, fname, fetched, S, create_blocks)
    chk.floor("R1", n_r1, 3, "rollback-checked loaders")
    r4_r5(chk, prog)


def meta_get_origin(ctx, o, doc_pred, key):
    """origin o is `<doc>.signed.meta.get(key)`"""
    if o.kind != "call" or not path_match(o.key[1], "std::collections::hash::map::HashMap::get"):
        return False
    t = o.extra
    recv = ctx.origins.of_operand(t.args[0])
    if not recv or not all(doc_pred(r) and r.fields == ("signed", "meta") for r in recv):
        return False
    return ctx.const_str_of(t.args[1]) == key


def r2_snapshot(chk, ctx, fname, fetched, S, create_blocks):
    f = ctx.fn
    key = "targets.json"
    stored_doc = lambda o: stored_origin(ctx, base(o), fname)
    fetched_doc = lambda o: base(o) in fetched
    old_get = new_get = None
    for bb, t in ctx.calls("std::collections::hash::map::HashMap::get"):
        o = Origin("call", (bb, strip_generics(t.resolved or t.callee)), (), t)
        if meta_get_origin(ctx, o, stored_doc, key):
            old_get = (bb, t)
        elif meta_get_origin(ctx, o, fetched_doc, key):
            new_get = (bb, t)
    if old_get is None:
        chk.fail("R2", f, "old-targets-meta", "the stored snapshot's entry for %r is never consulted: "
                 "a snapshot listing an older (or no) top-level targets version would be accepted" % key)
        return
    old_tr = ctx.track_call(old_get[0])
    S2 = list(S) + old_tr.neg_edges(0)          # old snapshot had no targets entry: nothing to compare
    if new_get is None:
        chk.fail("R2", f, "new-targets-meta", "the fetched snapshot's entry for %r is not looked up "
                 "where the stored one exists" % key, ctx.site(old_get[0]))
        return
    new_tr = ctx.track_call(new_get[0])
    # (a) new entry missing -> must not reach create: its None edge must lead only to error exits
    neg = new_tr.all_neg_edges()
    reach = ctx.cfg.reach_from_edges(neg) if neg else set()
    chk.require(bool(neg) and not (reach & set(create_blocks)), "R2", f, "dropped-entry",
                "a fetched snapshot that DROPS the %r entry listed by the stored snapshot can still be "
                "persisted" % key, ctx.site(new_get[0]))
    # (b) old_meta.version <= new_meta.version
    is_old = lambda o: meta_get_origin(ctx, base(o), stored_doc, key) and o.fields == ("version",)
    is_new = lambda o: meta_get_origin(ctx, base(o), fetched_doc, key) and o.fields == ("version",)
    guards = version_guard(ctx, fname, fetched, None, None, is_old, is_new)
    T = []
    for (bb, op, edges, strict, sp, _) in guards:
        if strict == "lt":
            chk.fail("R2", f, "listed-version:strict", "the snapshot-listed targets version check rejects an "
                     "equal version (operator %s)" % op, site_of(sp))
        T.extend(edges)
    # paths to create that went through the Some edge of the old lookup must pass T
    some = old_tr.pos_edges(0)
    path = ctx.cfg.witness_path(create_blocks, set(T) | set(neg), starts=[e[1] for e in some]) if some else [0]
    chk.require(path is None, "R2", f, "listed-version",
                "snapshot.json can be persisted although the targets.json version it lists is lower "
                "than the one listed by the stored snapshot (no old_meta.version <= new_meta.version "
                "edge on the path)", ctx.site(old_get[0]), detail="guards=%d" % len(guards),
                path=ctx.describe_path(path))


def r4_r5(chk, prog):
    # R4: who may call Datastore::remove
    sites = []
    for b in prog.bodies.values():
        if not b.path.startswith("tough::") or b.path.startswith("tough::datastore::"):
            continue
        for bb, t in b.calls():
            if t.is_call_to(REMOVE):
                sites.append((b, bb, t))
    ctx = async_body(prog, "tough::load_root")
    allowed = ctx.body.path if ctx else None
    for b, bb, t in sites:
        chk.require(b.path == allowed, "R4", short_fn(b.path), "remove-site",
                    "Datastore::remove is called outside load_root: stored rollback state can be "
                    "deleted by %s" % b.path, site_of(t.sp))
    if ctx is None:
        chk.anchor_missing("R4", "tough::load_root")
        return
    chk.analysed_body(ctx.body)
    rem = [(bb, t) for (b, bb, t) in sites if b.path == allowed]
    chk.floor("R4", len(rem), 1, "Datastore::remove sites in load_root")
    names = sorted(x for bb, t in rem for x in (const_strs_of(ctx, t.args[1]) or {"?"}))
    chk.require(names == ["snapshot.json", "timestamp.json"], "R4", ctx.fn, "remove-names",
                "load_root removes %s, expected exactly timestamp.json and snapshot.json" % names)
    # R5/R6: the condition guarding the removal
    if rem:
        rb = sorted(bb for bb, _ in rem)
        first = rb[0]
        ctl = control_switches_outside_loops(ctx, first)
        chk.require(bool(ctl), "R6", ctx.fn, "removal-is-conditional",
                    "the stored timestamp/snapshot are deleted unconditionally", ctx.site(first))
        dep = False
        online = {"Timestamp", "Snapshot"}

        def scoped(o):
            """a read of the root document restricted to one online role"""
            if is_call(o, "tough::schema::Root::keys"):
                return True
            if is_call(o, "std::collections::hash::map::HashMap::get"):
                recv = ctx.origins.of_operand(o.extra.args[0])
                return bool(recv) and all(r.fields[-2:] == ("signed", "roles") for r in recv)
            return False

        roles_seen = set()
        unscoped = []
        for sbb, edges in ctl:
            sw = ctx.body.blocks[sbb].term
            for o in deep_origins(ctx, sw.discr, 8, stop=scoped):
                if is_call(o, BYTES):
                    dep = True
                if scoped(o):
                    key = o.extra.args[1]
                    for r in ctx.origins.of_operand(key):
                        if r.kind == "agg" and r.key[2].startswith("tough::schema::RoleType::"):
                            roles_seen.add(r.key[2].split("::")[-1])
                        else:
                            roles_seen.add("?" + repr(r))
                    continue
                if o.fields[:1] == ("signed",) and len(o.fields) > 1:
                    unscoped.append(o)
        chk.require(roles_seen == online and not unscoped, "R6", ctx.fn, "removal-scope",
                    "the decision to delete the stored timestamp/snapshot must depend only on what the "
                    "roots authorise for the timestamp and snapshot roles; it reads roles %s and %s: a root "
                    "that changes only other roles would void rollback protection"
                    % (sorted(roles_seen), sorted(map(repr, unscoped))[:4]), ctx.site(first),
                    detail="controlling branches=%d" % len(ctl))
        chk.require(dep, "R5", ctx.fn, "rotation-baseline",
                    "the decision to delete the stored timestamp/snapshot depends only on the shipped "
                    "root and the remote chain (no operand originates from Datastore::bytes): whenever "
                    "the shipped root predates a timestamp/snapshot key rotation the stored files are "
                    "deleted in EVERY cycle, so replaying an older signed timestamp/snapshot succeeds",
                    ctx.site(first), detail="controlling branches=%d" % len(ctl))
