"""C13 — a key is only trusted under the identifier that is the digest of its content."""
from .common import *
from ..attrs import Attrs, serde_map
from . import c20

DK = "tough::schema::de::deserialize_keys"
VIE = DK + "::validate_and_insert_entry"
VISIT = "<tough::schema::de::deserialize_keys::Visitor as serde::de::Visitor<'de>>::visit_map"
KEY_ID = "tough::schema::key::Key::key_id"
HINSERT = "std::collections::hash::map::HashMap::insert"


def run(chk, prog):
    chk.rules_live = ["R1", "R2", "R3", "R4", "R5"]
    chk.explanation = (
        "Attribute + dominance rules: every field of type HashMap<Decoded<Hex>, Key> in a derived "
        "Deserialize struct is parsed with de::deserialize_keys; there, entries reach the map only "
        "through validate_and_insert_entry, whose Ok (and the insertion itself) is dominated by the "
        "true edge of `keyid == key.key_id()?` (full PartialEq on the decoded bytes) and by the "
        "`insert(..).is_none()` edge, and it is called for every next_entry of the input; Key::key_id "
        "is SHA-256 over the canonical serialisation of the key itself; Decoded compares/hashes its "
        "decoded bytes only; tuftool inserts keys under key.key_id().")
    chk.not_decided = ["stability of identifiers across parse/re-serialise at the value level (follows from C12-R5: "
                       "Decoded keeps the original text)", "SHA-256"]
    chk.assumptions = ["aws-lc-rs digest; Vec<u8> equality"]
    attrs = Attrs(prog.facts_dir)
    n = 0
    for it in attrs.items:
        if it["kind"] != "struct" or "Deserialize" not in it["derives"]:
            continue
        for f in it["fields"]:
            if f["ty"] in ("HashMap<Decoded<Hex>,Key>", "HashMap<Decoded<Hex>,crate::schema::key::Key>"):
                n += 1
                sm = serde_map(f["serde"])
                chk.require(sm.get("deserialize_with") == "de::deserialize_keys", "R1", "tough::schema::" + it["name"],
                            "%s:validated-on-parse" % f["name"],
                            "key table %s.%s is parsed without de::deserialize_keys: identifiers are not recomputed"
                            % (it["name"], f["name"]), "%s:%s" % (it["file"], it["line"]))
    chk.floor("R1", n, 2, "key tables (Root.keys, Delegations.keys)")
    # R5: the identifier is the digest of the key's *content as parsed*: key_id() hashes the key's own
    # serialisation, so every key type re-emits all it parsed (no one-sided serde attribute, unknown
    # `keyval` members kept) — otherwise the identifier silently becomes that of a different content
    nk = 0
    for it in attrs.items:
        if it["kind"] not in ("struct", "enum") or not it.get("file", "").endswith("schema/key.rs"):
            continue
        if "Serialize" not in it["derives"] and "Deserialize" not in it["derives"]:
            continue
        conts = [it] if it["kind"] == "struct" else it["variants"]
        for c in conts:
            for f in c["fields"]:
                nk += 1
                sm = serde_map(f["serde"])
                bad = [a for a in ("skip", "skip_serializing", "skip_deserializing", "serialize_with", "with", "skip_serializing_if")
                       if a in sm]
                chk.require(not bad, "R5", "tough::schema::key::" + it["name"], "%s:re-emitted-as-parsed" % f["name"],
                            "key field %s.%s is #[serde(%s)]: Key::key_id() digests the key's serialisation, so the "
                            "identifier would no longer be the digest of the content that was parsed"
                            % (it["name"], f["name"], ",".join(bad)), "%s:%s" % (it["file"], it["line"]))
    chk.floor("R5", nk, 8, "fields of the key types in schema/key.rs")
    # R2
    ctx = ctx_of(prog, VIE)
    if ctx is None:
        chk.anchor_missing("R2", VIE)
    else:
        chk.analysed_body(ctx.body)
        f = ctx.fn
        cfg = ctx.cfg
        T = []
        for (bb, op, a, b, tr, sp) in ctx.comparisons():
            if op not in ("eq", "ne") or not ctx.body.blocks[bb].term.is_call_to("core::cmp::PartialEq::eq", "core::cmp::PartialEq::ne"):
                continue
            oa, ob = ctx.origins.of_operand(a), ctx.origins.of_operand(b)
            kid = lambda og: bool(og) and all(o.kind == "param" and o.key[1] == "keyid" and not o.fields for o in og)
            calc = lambda og: only_calls(og, KEY_ID) and all(
                all(x.kind == "param" and x.key[1] == "key" for x in ctx.origins.of_operand(o.extra.args[0])) for o in og)
            if (kid(oa) and calc(ob)) or (kid(ob) and calc(oa)):
                # the comparison must be Decoded == Decoded (whole decoded value)
                t = ctx.body.blocks[bb].term
                whole = "Decoded" in " ".join(t.generic_args)
                chk.require(whole, "R2", f, "compares-whole-identifier", "the identifier comparison is not Decoded == Decoded", site_of(sp))
                T.extend(tr.pos_edges(0) if op == "eq" else tr.neg_edges(0))
        okb = ctx.ok_return_blocks()
        p = cfg.witness_path(okb, T)
        chk.require(bool(T) and p is None, "R2", f, "ok-needs-id-match",
                    "an entry is accepted on a path that does not pass the edge `keyid == key.key_id()`",
                    site_of(ctx.body.span), path=ctx.describe_path(p))
        ins = [(bb, t) for bb, t in ctx.calls(HINSERT)]
        # entry API spelling: match map.entry(keyid) { Occupied(_) => Err, Vacant(slot) => { slot.insert(key); Ok } }
        N = []
        vins = []
        for ebb, et in ctx.calls("std::collections::hash::map::HashMap::entry"):
            k = ctx.origins.of_operand(et.args[1])
            if not (k and all(o.kind == "param" and o.key[1] == "keyid" and not o.fields for o in k)):
                continue
            vac = variant_edges(ctx, et.dest.local, "Vacant")
            for bb, t in ctx.calls("std::collections::hash::map::VacantEntry::insert"):
                slot = ctx.origins.of_operand(t.args[0])
                v = ctx.origins.of_operand(t.args[1])
                from_entry = bool(slot) and all(o.kind == "call" and o.key[0] == ebb for o in slot)
                chk.require(from_entry and bool(v) and all(o.kind == "param" and o.key[1] == "key" for o in v), "R2", f,
                            "inserts-checked-pair", "the pair inserted is not (keyid, key)", ctx.site(bb))
                p2 = cfg.witness_path([bb], T)
                chk.require(p2 is None, "R2", f, "insert-after-id-match", "the entry is inserted before/without the identifier check",
                            ctx.site(bb), path=ctx.describe_path(p2))
                # Ok only through the Vacant edge AND the insertion itself
                if vac and cfg.witness_path([bb], vac) is None:
                    N.extend(vac)
                    vins.append(bb)
        if vins:
            p4 = cfg.witness_path(okb, (), removed_blocks=vins)
            chk.require(p4 is None, "R2", f, "ok-needs-insert", "Ok is returned without the entry having been inserted",
                        site_of(ctx.body.span), path=ctx.describe_path(p4))
        chk.floor("R2-insert", len(ins) + len(vins), 1, "map.insert in validate_and_insert_entry")
        for bb, t in ins:
            p2 = cfg.witness_path([bb], T)
            chk.require(p2 is None, "R2", f, "insert-after-id-match", "the entry is inserted before/without the identifier check",
                        ctx.site(bb), path=ctx.describe_path(p2))
            k = ctx.origins.of_operand(t.args[1])
            v = ctx.origins.of_operand(t.args[2])
            chk.require(all(o.kind == "param" and o.key[1] == "keyid" for o in k) and all(o.kind == "param" and o.key[1] == "key" for o in v)
                        and bool(k) and bool(v), "R2", f, "inserts-checked-pair", "the pair inserted is not (keyid, key)", ctx.site(bb))
            # "no previous entry": the None outcome of insert(..) (through is_none()/is_some()/match)
            N.extend(ctx.track_call(bb).neg_edges(0))
        p3 = cfg.witness_path(okb, N)
        chk.require(bool(N) and p3 is None, "R2", f, "ok-needs-no-duplicate",
                    "an entry is accepted although the identifier was already present (no `insert(..).is_none()` edge)",
                    site_of(ctx.body.span), path=ctx.describe_path(p3))
    vctx = ctx_of(prog, VISIT)
    if vctx is None:
        chk.anchor_missing("R2", VISIT)
    else:
        chk.analysed_body(vctx.body)
        calls = vctx.calls(VIE)
        nexts = vctx.calls("serde::de::MapAccess::next_entry")
        other_ins = vctx.calls(HINSERT, "std::collections::hash::map::HashMap::extend", "core::iter::traits::collect::Extend::extend")
        chk.require(len(calls) >= 1 and len(nexts) >= 1 and not other_ins, "R2", vctx.fn, "entries-only-via-validation",
                    "the key map is filled otherwise than through validate_and_insert_entry (direct inserts: %d)" % len(other_ins))
        pos = []
        for bb, t in calls:
            pos.extend(vctx.track_call(bb).neg_edges(0))
            ent = deep_origins(vctx, t.args[0], 4) | deep_origins(vctx, t.args[1], 4)
            chk.require(any(is_call(o, "serde::de::MapAccess::next_entry") for o in ent), "R2", vctx.fn, "validates-each-input-entry",
                        "validate_and_insert_entry is not applied to the entries read from the input", vctx.site(bb))
            loop = next((c for c in vctx.cfg.sccs() if bb in c), None)
            chk.require(loop is not None and any(nb in loop for nb, _ in nexts), "R2", vctx.fn, "every-entry",
                        "validation is not inside the loop over all input entries", vctx.site(bb))
        okb = vctx.ok_return_blocks()
        r = vctx.cfg.reach_from_edges(pos) if pos else set()
        chk.require(bool(pos) and not (r & set(okb)), "R2", vctx.fn, "invalid-entry-fails-parse",
                    "a failing validation does not make the whole parse fail")
        ret = set()
        for b in vctx.body.blocks:
            for s in b.stmts:
                if s.k == "assign" and s.place.local == 0 and s.rv.k == "agg" and s.rv.j.get("variant") == "Ok":
                    ret |= vctx.origins.of_operand(s.rv.ops[0])
        chk.require(only_calls(ret, "std::collections::hash::map::HashMap::new"), "R2", vctx.fn, "returns-the-validated-map",
                    "visit_map returns %s" % sorted(map(repr, ret)))
    dctx = ctx_of(prog, DK)
    if dctx is not None:
        chk.analysed_body(dctx.body)
        dm = dctx.calls("serde::de::Deserializer::deserialize_map")
        chk.require(len(dm) == 1, "R2", dctx.fn, "uses-the-validating-visitor", "deserialize_keys does not drive the validating Visitor")
    # R3 key_id
    kctx = ctx_of(prog, KEY_ID)
    if kctx is None:
        chk.anchor_missing("R3", KEY_ID)
    else:
        chk.analysed_body(kctx.body)
        dig = kctx.calls("aws_lc_rs::digest::digest")
        ok = len(dig) == 1
        if ok:
            bb, t = dig[0]
            alg = kctx.origins.of_operand(t.args[0])
            ok = any(o.kind == "const" and o.extra is not None and o.extra.j.get("static", "").endswith("::SHA256") for o in alg)
            buf = kctx.origins.of_operand(t.args[1])
            ok = ok and only_calls(buf, "alloc::vec::Vec::new")
            ret = set()
            for b in kctx.body.blocks:
                for s in b.stmts:
                    if s.k == "assign" and s.place.local == 0 and s.rv.k == "agg" and s.rv.j.get("variant") == "Ok":
                        ret |= deep_origins(kctx, s.rv.ops[0], 5)
            ok = ok and any(o.kind == "call" and o.key[0] == bb for o in ret)
        chk.require(ok, "R3", kctx.fn, "sha256-of-buffer", "Key::key_id is not digest(SHA256, <buffer>) of a local buffer")
        from .c01 import WITH_FMT, CANON_NEW, SERIALIZE
        wf = [(bb, t) for bb, t in kctx.calls(WITH_FMT) if only_calls(kctx.origins.of_operand(t.args[1]), CANON_NEW)]
        sers = []
        for bb, t in kctx.calls(SERIALIZE):
            v = kctx.origins.of_operand(t.args[0])
            if v and all(o.kind == "param" and o.key[1] == "self" and not o.fields for o in v):
                sers.extend(kctx.track_call(bb).pos_edges(0))
        p = kctx.cfg.witness_path([bb for bb, _ in dig], sers)
        chk.require(len(wf) == 1 and bool(sers) and p is None, "R3", kctx.fn, "canonical-form-of-self",
                    "the digest is not taken over the canonical serialisation of the key itself")
    for pth, what in (("<tough::schema::decoded::Decoded<T> as core::cmp::PartialEq>::eq", "eq"),
                      ("<tough::schema::decoded::Decoded<T> as core::hash::Hash>::hash", "hash")):
        c = ctx_of(prog, pth)
        if c is None:
            chk.anchor_missing("R3", pth)
            continue
        chk.analysed_body(c.body)
        flds = set()
        for b in c.body.blocks:
            for s in b.stmts:
                if s.rv is not None:
                    for pl in [s.rv.place] + [o.place for o in s.rv.ops]:
                        if pl is not None:
                            flds |= set(pl.fields())
        chk.require(flds == {"bytes"}, "R3", c.fn, "identity-is-decoded-bytes",
                    "Decoded::%s reads fields %s; identifiers must be compared by their decoded bytes only (so the hex "
                    "case of the spelling does not matter and nothing else does)" % (what, sorted(flds)))
    # R4
    sub = c20
    sub.r3_keyids(_Relabel(chk, "R4"), prog)


class _Relabel:
    def __init__(self, chk, rule):
        self.chk = chk
        self.rule = rule

    def __getattr__(self, n):
        return getattr(self.chk, n)

    def require(self, cond, rule, *a, **k):
        return self.chk.require(cond, self.rule, *a, **k)

    def fail(self, rule, *a, **k):
        return self.chk.fail(self.rule, *a, **k)

    def floor(self, rule, *a, **k):
        return self.chk.floor(self.rule, *a, **k)

    def anchor_missing(self, rule, *a, **k):
        return self.chk.anchor_missing(self.rule, *a, **k)
