"""C11 — canonical JSON output is the OLPC canonical form of the value, and only of it."""
from .common import *

F = "<olpc_cjson::CanonicalFormatter as serde_json::ser::Formatter>::"
WRITER = "olpc_cjson::CanonicalFormatter::writer"
IOW = ("std::io::Write::write_all", "std::io::Write::write", "std::io::Write::write_fmt")
SORT_KEY = "olpc_cjson::sort_key"
ESCAPES = {"Quote": 0x22, "ReverseSolidus": 0x5c, "Solidus": 0x2f, "Backspace": 0x08, "FormFeed": 0x0c,
           "LineFeed": 0x0a, "CarriageReturn": 0x0d, "Tab": 0x09}


def run(chk, prog):
    chk.rules_live = ["R1", "R2", "R3", "R4", "R5", "R6"]
    chk.explanation = (
        "Structural rules over the Formatter implementation (trait table from the compiler + MIR): "
        "every serde_json::ser::Formatter method is overridden or has a default body that only calls "
        "other Formatter methods (so nothing can bypass the object buffer); every byte is written "
        "through CanonicalFormatter::writer(..) (the current key/value buffer), never to the "
        "caller's writer directly; object members are inserted under sort_key(written key), which "
        "strips exactly one pair of quotes and un-escapes backslash pairs, and are emitted by "
        "iterating the BTreeMap; floats always fail; only '\"' and '\\\\' get a backslash and every "
        "escape class maps to its own byte; string fragments are written only as the NFC "
        "normalisation of the whole fragment.")
    chk.not_decided = ["value-level equality with the OLPC form", "NFC correctness (unicode-normalization)",
                       "integer formatting (delegated to serde_json's CompactFormatter)", "injectivity as a whole"]
    chk.assumptions = ["serde_json calls the Formatter as documented; BTreeMap<Vec<u8>,_> iterates in byte order = code point order for UTF-8"]
    tt = prog.traits.get("serde_json::ser::Formatter")
    if not chk.require(tt is not None, "R1", "olpc_cjson", "trait-table", "anchor-missing: no Formatter trait table in the facts"):
        return
    # ---- R1 exhaustiveness
    n_over = 0
    for m in tt["methods"]:
        if m["impls"]:
            n_over += 1
            continue
        db = m["default_body"]
        if not chk.require(db is not None, "R1", "serde_json::ser::Formatter::" + m["n"], "default-body-visible",
                           "Formatter::%s is not overridden and its default body could not be inspected" % m["n"]):
            continue
        from ..facts import Body
        body = Body(db, "extern")
        bad = []
        for bb, t in body.calls():
            nm = t.callee or ""
            if nm.startswith("std::io::") or nm.startswith("core::fmt::Write") or "write_all" in nm or "itoa" in nm or "ryu" in nm:
                bad.append(nm)
        chk.require(not bad, "R1", "serde_json::ser::Formatter::" + m["n"], "default-only-calls-formatter-methods",
                    "Formatter::%s is not overridden by CanonicalFormatter and its default body writes to the writer "
                    "directly (%s): such output bypasses the object buffer and the key ordering" % (m["n"], bad[:3]))
    chk.floor("R1", n_over, 30, "Formatter methods overridden by CanonicalFormatter")
    # ---- R2 routing
    n_w = 0
    for b in prog.bodies.values():
        if not b.path.startswith(F) and not b.path.startswith("olpc_cjson::"):
            continue
        if b.path.startswith("olpc_cjson::main") or b.crate.endswith("executable"):
            continue
        ctx = ctx_of(prog, b.path)
        chk.analysed_body(b)
        ordinal = 0
        for bb, t in sorted(b.calls(), key=lambda x: (x[1].sp["l"], x[1].sp.get("c", 0))):
            is_io = t.is_call_to(*IOW)
            is_compact = (t.callee or "").startswith("serde_json::ser::Formatter::") and t.self_adt == "serde_json::ser::CompactFormatter"
            if t.self_adt == "serde_json::ser::PrettyFormatter":
                chk.fail("R2", short_fn(b.path), "no-pretty-formatter", "PrettyFormatter is used: insignificant whitespace", site_of(t.sp))
            if not (is_io or is_compact):
                continue
            w = t.args[0] if is_io else t.args[1]
            og = deep_origins(ctx, w, 5, stop=lambda o: is_call(o, WRITER))
            via = any(is_call(o, WRITER) for o in og)
            direct = [o for o in og if o.kind == "param" and o.key[1] in ("writer", "_writer")]
            # a captured variable is what the enclosing function put into it
            for o in og:
                if o.kind == "upvar":
                    pctx, src = upvar_source(prog, ctx, o.key[0])
                    deep = set()
                    for x in src:
                        deep |= deep_origins(pctx, x.extra.args[0], 5, stop=lambda y: is_call(y, WRITER)) | {x} \
                            if (x.kind == "call" and not is_call(x, WRITER) and x.extra is not None and x.extra.args) else {x}
                    if any(is_call(x, WRITER) for x in deep):
                        via = True
                    direct += [x for x in deep if x.kind in ("param", "upvar") and x.key[1] in ("writer", "_writer")]
            n_w += 1
            ordinal += 1
            inside_writer_fn = root_fn(b.path) == WRITER
            chk.require(inside_writer_fn or (via and not direct) or _end_object_writer(ctx, og), "R2", short_fn(b.path),
                        "writes-through-current-buffer#%d" % ordinal,
                        "bytes are written to %s instead of self.writer(writer): inside an object they would bypass the "
                        "key/value buffers (unsorted or misplaced output)" % sorted(map(repr, og))[:3], site_of(t.sp))
    chk.floor("R2", n_w, 30, "write sites in the formatter")
    r3_ordering(chk, prog)
    r4_floats(chk, prog)
    r5_escapes(chk, prog)
    r6_strings(chk, prog)


def _end_object_writer(ctx, og):
    return any(is_call(o, WRITER) for o in og)


def r3_ordering(chk, prog):
    ctx = ctx_of(prog, F + "end_object_value")
    if ctx is None:
        chk.anchor_missing("R3", F + "end_object_value")
        return
    chk.analysed_body(ctx.body)
    ins = ctx.calls("alloc::collections::btree::map::BTreeMap::insert")
    if not chk.require(len(ins) == 1, "R3", ctx.fn, "sorted-map-insert", "members are not collected in a BTreeMap (found %d inserts)" % len(ins)):
        return
    bb, t = ins[0]
    recv = ctx.origins.of_operand(t.args[0])
    chk.require(all(o.fields[-1:] == ("obj",) for o in recv) and bool(recv), "R3", ctx.fn, "inserts-into-object-map", "insert target is not Object.obj", ctx.site(bb))
    key = ctx.origins.of_operand(t.args[1])
    ok = only_calls(key, SORT_KEY)
    if ok:
        for o in key:
            src = deep_origins(ctx, o.extra.args[0], 4)
            ok = ok and any(is_call(x, "core::mem::take") for x in src) and any(x.fields[-1:] == ("next_key",) for x in src)
    chk.require(ok, "R3", ctx.fn, "ordered-by-unescaped-key",
                "object members are not ordered by sort_key(next_key) (the key with quotes and escapes removed): "
                "ordering by the written form compares the closing quote / escaping backslashes with other keys' characters",
                ctx.site(bb))
    val = deep_origins(ctx, t.args[2], 4)
    chk.require(any(x.fields[-1:] == ("next_key",) for x in val) and any(x.fields[-1:] == ("next_value",) for x in val), "R3", ctx.fn,
                "stores-written-key-and-value", "the map entry does not hold the written key and value")
    # sort_key itself
    sctx = ctx_of(prog, SORT_KEY)
    if sctx is None:
        chk.anchor_missing("R3", SORT_KEY)
        return
    chk.analysed_body(sctx.body)
    f = sctx.fn
    sp, ss, trims = [], [], []
    for b in body_family(prog, sctx.body.path):
        c2 = ctx_of(prog, b.path)
        sp += [(c2, t) for bb, t in c2.calls("core::slice::<impl [T]>::strip_prefix")]
        ss += [(c2, t) for bb, t in c2.calls("core::slice::<impl [T]>::strip_suffix")]
        trims += [t for bb, t in b.calls() if "trim" in (t.callee or "")]
    okq = len(sp) == 1 and len(ss) == 1 and not trims
    for c2, t in sp + ss:
        c = c2.origins.of_operand(t.args[1])
        okq = okq and all(o.kind == "const" and o.extra is not None and o.extra.const_bytes == b'"' for o in c) and bool(c)
    chk.require(okq, "R3", f, "strips-exactly-one-quote-pair",
                "sort_key does not remove exactly one leading and one trailing quotation mark (strip_prefix/strip_suffix "
                "of b\"\\\"\"): keys that themselves begin or end with '\"' would lose characters and collide")
    # the backslash branch consumes the next byte and keeps it
    nexts = sctx.calls("core::iter::traits::iterator::Iterator::next")
    bs = []
    for (bb, op, a, b_, tr, spn) in sctx.comparisons():
        og = sctx.origins.of_operand(a) | sctx.origins.of_operand(b_)
        if any(o.kind == "const" and o.extra is not None and (o.extra.const_int == 0x5c) for o in og) and op in ("eq", "ne"):
            bs.append((bb, tr.pos_edges(0) if op == "eq" else tr.neg_edges(0), tr.neg_edges(0) if op == "eq" else tr.pos_edges(0)))
    ok = len(bs) == 1 and len(nexts) >= 2
    if ok:
        bb, esc_edges, plain_edges = bs[0]
        esc_region = sctx.cfg.reach_from_edges(esc_edges, removed_blocks=[bb])
        # in the escape branch: a second next() whose item is appended; in the plain branch: the byte itself is appended
        loop = next((c for c in sctx.cfg.sccs() if bb in c), set())
        n2 = [nb for nb, nt in nexts if nb in esc_region and nb in loop and nb not in sctx.cfg.reach_from_edges(plain_edges, removed_blocks=[bb]) ]
        appended = False
        for ab, at in sctx.calls("core::iter::traits::collect::Extend::extend", "alloc::vec::Vec::push", "alloc::vec::Vec::extend_from_slice"):
            if ab in esc_region and at.args[1].place is not None and any(
                    kind == "call" and dbb in n2 for (kind, dbb, idx, obj) in sctx.origins.defs.get(at.args[1].place.local, [])):
                appended = True
        pushed_plain = any(ab in sctx.cfg.reach_from_edges(plain_edges, removed_blocks=[bb]) for ab, at in sctx.calls("alloc::vec::Vec::push"))
        ok = bool(n2) and appended and pushed_plain
    chk.require(ok, "R3", f, "unescapes-backslash-pairs",
                "sort_key does not, on a backslash, skip it and keep the FOLLOWING byte (and keep every other byte): keys "
                "containing '\\\\' or '\\\"' would be ordered wrongly or collide with other keys")
    ret = sctx.origins.of_local(0)
    chk.require(only_calls(ret, "alloc::vec::Vec::with_capacity", "alloc::vec::Vec::new"), "R3", f, "returns-built-key",
                "sort_key returns %s" % sorted(map(repr, ret)))
    # emission iterates the map in order
    ectx = ctx_of(prog, F + "end_object")
    if ectx is None:
        chk.anchor_missing("R3", F + "end_object")
    else:
        chk.analysed_body(ectx.body)
        it = ectx.calls("alloc::collections::btree::map::BTreeMap::into_values", "core::iter::traits::collect::IntoIterator::into_iter",
                        "alloc::collections::btree::map::BTreeMap::values", "alloc::collections::btree::map::BTreeMap::iter")
        src_ok = any(any(o.fields[-1:] == ("obj",) for o in deep_origins(ectx, t.args[0], 4)) for bb, t in it)
        rev = [t for bb, t in ectx.body.calls() if (t.callee or "").endswith("::rev")]
        chk.require(src_ok and not rev, "R3", ectx.fn, "emits-in-map-order", "end_object does not emit the members by forward iteration over Object.obj")


def r4_floats(chk, prog):
    for m in ("write_f32", "write_f64"):
        ctx = ctx_of(prog, F + m)
        if ctx is None:
            chk.anchor_missing("R4", F + m)
            continue
        chk.analysed_body(ctx.body)
        oks = ctx.ok_return_blocks()
        writes = [1 for bb, t in ctx.body.calls() if t.is_call_to(*IOW) or (t.callee or "").startswith("serde_json::ser::Formatter::")]
        chk.require(not oks and not writes, "R4", ctx.fn, "always-fails", "%s can succeed or write output: floats must be refused" % m)
    ctx = ctx_of(prog, F + "write_number_str")
    if ctx is None:
        chk.anchor_missing("R4", F + "write_number_str")
        return
    chk.analysed_body(ctx.body)
    anys = ctx.calls("core::iter::traits::iterator::Iterator::any")
    neg = []
    for bb, t in anys:
        neg.extend(ctx.tracker.track(t.dest.local, is_bool=True).neg_edges(0))
    deleg = [bb for bb, t in ctx.body.calls() if (t.callee or "").startswith("serde_json::ser::Formatter::write_number_str")]
    p = ctx.cfg.witness_path(deleg, neg)
    chk.require(bool(anys) and bool(deleg) and p is None, "R4", ctx.fn, "number-strings-scanned",
                "write_number_str passes a number string on without the scan for '.', 'e', 'E' having been negative")
    clo = ctx_of(prog, F + "write_number_str::{closure#0}")
    if clo is not None:
        consts = set()
        for (bb, op, a, b_, tr, sp) in clo.comparisons():
            for o in clo.origins.of_operand(a) | clo.origins.of_operand(b_):
                if o.kind == "const" and o.extra is not None and o.extra.const_int is not None:
                    consts.add(chr(o.extra.const_int))
        chk.require({".", "e", "E"} <= consts, "R4", clo.fn, "scans-for-dot-e-E", "the float scan looks for %s" % sorted(consts))


def r5_escapes(chk, prog):
    ctx = ctx_of(prog, F + "write_char_escape")
    if ctx is None:
        chk.anchor_missing("R5", F + "write_char_escape")
        return
    chk.analysed_body(ctx.body)
    f = ctx.fn
    sws = []
    for b in ctx.body.blocks:
        for s in b.stmts:
            if s.k == "assign" and s.rv.k == "discr" and s.rv.j.get("adt") == "serde_json::ser::CharEscape":
                for sw in ctx.tracker._switch_on(s.place.local, b.idx):
                    sws.append((sw, s.rv.j["vars"]))
    # the backslash write
    bsl = []
    for bb, t in ctx.calls(*IOW):
        c = ctx.origins.of_operand(t.args[1])
        if c and all(o.kind == "const" and o.extra is not None and o.extra.const_bytes == b"\\" for o in c):
            bsl.append(bb)
    ok = len(bsl) == 1 and bool(sws)
    if ok:
        allowed_edges = []
        for sw, vars_ in sws:
            for v, d in sw.term.tv:
                if vars_.get(str(v)) in ("Quote", "ReverseSolidus"):
                    allowed_edges.append((sw.idx, d, v))
        # reachable only via Quote/ReverseSolidus edges of some switch, and not via any other variant edge
        p = ctx.cfg.witness_path(bsl, allowed_edges)
        if p is not None:
            # `if matches!(char_escape, Quote | ReverseSolidus)`
            g = matches_guard(ctx, allowed_edges)
            if g:
                p = ctx.cfg.witness_path(bsl, g)
        ok = bool(allowed_edges) and p is None
    chk.require(ok, "R5", f, "backslash-only-for-quote-and-backslash",
                "the escaping backslash is written for other classes than '\"' and '\\\\' (or not at all)")
    # byte table
    table = {}
    for sw, vars_ in sws:
        if len(sw.term.tv) < 8:
            continue
        for v, d in sw.term.tv:
            name = vars_.get(str(v))
            cur = d
            val = None
            for _ in range(6):
                blk = ctx.body.blocks[cur]
                for s in blk.stmts:
                    if s.k == "assign" and s.rv.k == "use" and not s.place.proj:
                        if s.rv.ops[0].is_const and s.rv.ops[0].const_int is not None:
                            val = s.rv.ops[0].const_int
                        elif s.rv.ops[0].place is not None and s.rv.ops[0].place.variant() == "AsciiControl":
                            val = "payload"
                if val is not None or blk.term is None or blk.term.k != "goto":
                    break
                cur = blk.term.target
            table[name] = val
    want = dict(ESCAPES)
    want["AsciiControl"] = "payload"
    chk.require(table == want, "R5", f, "escape-byte-table",
                "escape classes are written as %s, expected %s" % (table, want))
    # the byte written is that table value
    wr = [t for bb, t in ctx.calls(*IOW) if bb not in bsl]
    chk.require(len(wr) == 1, "R5", f, "one-raw-byte-write", "expected exactly one write of the raw character")


def r6_strings(chk, prog):
    ctx = ctx_of(prog, F + "write_string_fragment")
    if ctx is None:
        chk.anchor_missing("R6", F + "write_string_fragment")
        return
    chk.analysed_body(ctx.body)
    f = ctx.fn
    NFC = "unicode_normalization::UnicodeNormalization::nfc"
    nfc = ctx.calls(NFC)
    ok = len(nfc) == 1
    if ok:
        bb, t = nfc[0]
        arg = ctx.origins.of_operand(t.args[0])
        ok = bool(arg) and all(o.kind == "param" and o.key[1] == "fragment" and not o.fields for o in arg)
    chk.require(ok, "R6", f, "normalises-whole-fragment", "write_string_fragment does not apply nfc() to the whole fragment")
    # no write in the function body itself that takes its data from the fragment without nfc
    # (accepted fast path: `if fragment.is_ascii() { write_all(fragment.as_bytes()) }` — ASCII is its own NFC)
    direct = []
    fast = []
    asc = []
    for bb, t in ctx.calls("core::str::<impl str>::is_ascii"):
        og = ctx.origins.of_operand(t.args[0])
        if og and all(o.kind == "param" and o.key[1] == "fragment" and not o.fields for o in og):
            asc.extend(ctx.track_call(bb).pos_edges(0))
    for bb, t in ctx.calls(*IOW):
        data = ctx.origins.of_operand(t.args[1]) if len(t.args) > 1 else set()
        whole = bool(data) and all(is_call(o, "core::str::<impl str>::as_bytes") and all(
            x.kind == "param" and x.key[1] == "fragment" and not x.fields
            for x in ctx.origins.of_operand(o.extra.args[0])) for o in data)
        if whole and asc and ctx.cfg.witness_path([bb], asc) is None:
            fast.append(bb)
        else:
            direct.append(bb)
    chk.require(not direct, "R6", f, "no-unnormalised-write",
                "write_string_fragment writes bytes outside the per-character loop over the NFC iterator (a fast path "
                "that skips normalisation)", ctx.site(direct[0]) if direct else None)
    # every path to Ok goes through the iteration over the nfc iterator
    its = ctx.calls("core::iter::traits::iterator::Iterator::try_for_each", "core::iter::traits::iterator::Iterator::for_each")
    its = [(bb, t) for bb, t in its if any(is_call(o, NFC) for o in deep_origins(ctx, t.args[0], 3))]
    rets = ctx.origins.of_local(0)
    chk.require(len(its) == 1 and all(o.kind == "call" and (o.key[0] == its[0][0] or o.key[0] in fast) for o in rets)
                and any(o.kind == "call" and o.key[0] == its[0][0] for o in rets), "R6", f,
                "result-is-the-nfc-loop", "the result of write_string_fragment is not the result of iterating the NFC characters: %s" % sorted(map(repr, rets)))
    clo = ctx_of(prog, F + "write_string_fragment::{closure#0}")
    if clo is None:
        chk.anchor_missing("R6", F + "write_string_fragment::{closure#0}")
        return
    chk.analysed_body(clo.body)
    ws = clo.calls(*IOW)
    ok = len(ws) == 1
    if ok:
        bb, t = ws[0]
        data = deep_origins(clo, t.args[1], 5)
        ok = any(is_call(o, "core::char::methods::<impl char>::encode_utf8") for o in data) and any(o.kind == "param" for o in data)
    chk.require(ok, "R6", clo.fn, "writes-every-normalised-char", "the per-character closure does not write the UTF-8 encoding of the character it is given")
