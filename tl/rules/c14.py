"""C14 — online-key rotation lets clients recover from fast-forwarded versions."""
from .common import *
from .c03 import REMOVE, LOADERS, skip_edges, VERIFY
from .c01 import ROOT_VERIFY

KEYS = "tough::schema::Root::keys"
CMP = ("core::iter::traits::iterator::Iterator::ne", "core::iter::traits::iterator::Iterator::eq",
       "core::cmp::PartialEq::ne", "core::cmp::PartialEq::eq")


def run(chk, prog):
    chk.rules_live = ["R1", "R2", "R3"]
    chk.explanation = (
        "Control-dependence + provenance rules over the MIR of load_root step 1.9: the removal of the "
        "stored timestamp.json AND snapshot.json is directly controlled by whole-sequence (in)equality "
        "tests between Root::keys(<root trusted before the walk>, R) and Root::keys(<root trusted "
        "after it>, R) for R = Timestamp and R = Snapshot (either differing triggers both removals), "
        "Ok is not returned from a 'differs' edge without the removals having succeeded; stored "
        "documents that no longer verify under the final root are skipped by the loaders.")
    chk.not_decided = ["the histories themselves (each cycle is decided; see C03-R5 for the known baseline defect)"]
    chk.assumptions = ["Iterator::ne / PartialEq on key lists compare all elements"]
    ctx = async_body(prog, "tough::load_root")
    if ctx is None:
        chk.anchor_missing("R1", "tough::load_root")
        return
    chk.analysed_body(ctx.body)
    f = ctx.fn
    cfg = ctx.cfg
    rem = ctx.calls(REMOVE)
    names = sorted(x for bb, t in rem for x in (const_strs_of(ctx, t.args[1]) or {"?"}))
    if not chk.require(names == ["snapshot.json", "timestamp.json"], "R1", f, "removes-both-online-files",
                       "step 1.9 removes %s; it must remove exactly the stored timestamp.json and snapshot.json" % names):
        return
    rb = sorted(bb for bb, _ in rem)
    first = rb[0]
    ctl = control_switches_outside_loops(ctx, first)
    parses = sorted(bb for bb, _ in ctx.calls(*SER_PARSE))
    shipped_bb = parses[0] if parses else None
    roles_cmp = {}
    differs_edges = []
    problems = []
    for sbb, edges in ctl:
        sw = ctx.body.blocks[sbb].term
        og = ctx.origins.of_operand(sw.discr)
        for o in og:
            if not is_call(o, *CMP):
                problems.append("controlled by %r, not by a key-list (in)equality test" % o)
                continue
            t = o.extra
            sides = []
            for a in t.args[:2]:
                info = set()
                for x in deep_origins(ctx, a, 8, stop=lambda y: is_call(y, KEYS)):
                    if is_call(x, KEYS):
                        kt = x.extra
                        recv = ctx.origins.of_operand(kt.args[0], at=x.key[0])
                        bases = frozenset(base(r).key[0] for r in recv if r.kind == "call")
                        role = set()
                        for r in ctx.origins.of_operand(kt.args[1]):
                            role.add(r.key[2].split("::")[-1] if r.kind == "agg" else "?")
                        info.add((bases, frozenset(role)))
                    elif x.kind in ("call",) and any(path_match(x.key[1], p) for p in SER_PARSE):
                        info.add((frozenset([x.key[0]]), frozenset(["<whole document>"])))
                sides.append(info)
            if len(sides) != 2 or not sides[0] or not sides[1]:
                problems.append("a controlling comparison does not compare Root::keys(..) of two roots")
                continue
            flat = [next(iter(s)) for s in sides if len(s) == 1]
            if len(flat) != 2:
                problems.append("a controlling comparison mixes several key lists on one side")
                continue
            (b1, r1), (b2, r2) = flat
            before = frozenset([shipped_bb])
            pair_ok = r1 == r2 and len(r1) == 1 and ((b1 == before and len(b2) > 1) or (b2 == before and len(b1) > 1))
            if not pair_ok:
                problems.append("compares keys%s of roots parsed at %s with keys%s of roots parsed at %s; expected the "
                                "root trusted BEFORE the walk against the root trusted AFTER it, same role"
                                % (sorted(r1), sorted(b1), sorted(r2), sorted(b2)))
                continue
            roles_cmp.setdefault(next(iter(r1)), []).append(sbb)
            # which edges mean "differs"
            neg = t.is_call_to("core::iter::traits::iterator::Iterator::eq", "core::cmp::PartialEq::eq")
            for e in edges:
                differs_edges.append(e)
    for pr in problems:
        chk.fail("R2", f, "rotation-test-shape", "unrecognised or wrong rotation test: " + pr, ctx.site(first))
    chk.require(set(roles_cmp) == {"Timestamp", "Snapshot"}, "R2", f, "both-online-roles-compared",
                "the removal is controlled by key comparisons for roles %s; both Timestamp and Snapshot must be "
                "compared (a rotation of either must drop both stored files)" % sorted(roles_cmp), ctx.site(first),
                detail="controlling branches=%d" % len(ctl))
    # R1: from a 'differs' edge, Ok needs both removals (and their success)
    okb = ctx.ok_return_blocks()
    rem_pos = []
    for bb, t in rem:
        rem_pos.append(ctx.track_call(bb).pos_edges(0))
    if differs_edges:
        for (bb, t), pos in zip(rem, rem_pos):
            p = must_execute(ctx, [e[1] for e in differs_edges], okb, bb)
            nm = "+".join(sorted(const_strs_of(ctx, t.args[1]) or {"?"}))
            chk.require(p is None, "R1", f, "differs-implies-remove:%s" % nm,
                        "after the online keys were found to differ, Ok can be returned without removing the stored %s"
                        % nm, ctx.site(bb), path=ctx.describe_path(p))
        # a failing removal must fail the load
        all_neg = []
        for bb, t in rem:
            all_neg.extend(ctx.track_call(bb).neg_edges(0))
        r = cfg.reach_from_edges(all_neg) if all_neg else set()
        chk.require(bool(all_neg) and not (set(okb) & r), "R1", f, "remove-error-propagates",
                    "a failing removal of stored metadata does not fail load_root", ctx.site(first))
    # R3: loaders skip stored documents that no longer verify
    n = 0
    for fn, fname in LOADERS:
        lctx = async_body(prog, fn)
        if lctx is None:
            chk.anchor_missing("R3", fn)
            continue
        chk.analysed_body(lctx.body)
        from .c03 import rollback_site
        site = rollback_site(prog, lctx, fname)
        if site is not None and site[1] is not None:
            lctx = site[0]          # the rollback check lives in a helper of the loader
            chk.analysed_body(lctx.body)
        S, info = skip_edges(lctx, fname)
        vsk = 0
        for bb, t in lctx.calls(*VERIFY, wrappers=True):
            og = lctx.origins.of_operand(t.args[1])
            from .c03 import stored_origin
            if og and all(stored_origin(lctx, o, fname) for o in og):
                neg = lctx.track_call(bb).neg_edges(0)
                # blocks that compare against the stored document's content
                users = []
                for (cb, op, a, b_, trc, sp) in lctx.comparisons():
                    if any(stored_origin(lctx, base(o), fname) and o.fields for o in
                           lctx.origins.of_operand(a) | lctx.origins.of_operand(b_)):
                        users.append(cb)
                r = lctx.cfg.reach_from_edges(neg) if neg else set()
                if neg and users and not (r & set(users)):
                    vsk += 1
        n += 1 if vsk else 0
        chk.require(vsk >= 1, "R3", lctx.fn, "unverifiable-stored-file-is-skipped:" + fname,
                    "the stored %s is not re-verified under the current root (with a skip edge when it no longer "
                    "verifies): after a key rotation an old, inflated version would keep blocking the client" % fname)
    chk.floor("R3", n, 3, "loaders that skip unverifiable stored documents")
