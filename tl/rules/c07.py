"""C07 — a delegated role can only provide targets inside its delegated paths."""
from .common import *

FIND = "tough::schema::Targets::find_target"
PS_MATCH = "tough::schema::PathSet::matches_target_name"
PP_MATCH = "tough::schema::PathPattern::matches_target_name"
PH_MATCH = "tough::schema::PathHashPrefix::matches_target_name"
VALIDATE = "tough::schema::Targets::validate"
RESOLVED = "tough::target_name::TargetName::resolved"
NEXT = "core::iter::traits::iterator::Iterator::next"


def run(chk, prog):
    chk.rules_live = ["R1", "R2", "R3"]
    chk.explanation = (
        "Dominance rules over the MIR of Targets::find_target: the role's own entries are consulted "
        "first; every recursive lookup into a delegate is dominated by the true edge of "
        "role.paths.matches_target_name(name) for that same delegation entry; delegates are visited by "
        "forward iteration over delegations.roles and the first hit is returned; PathSet matching "
        "returns true only from a matcher's true edge and both matchers look at TargetName::resolved; "
        "load_targets (and the editor's sign) return Ok only through the Ok edge of validate(), which "
        "runs find_target for every listed target after the delegations were attached.")
    chk.not_decided = ["glob semantics of globset (e.g. '*' crossing '/')", "hash-prefix arithmetic"]
    chk.assumptions = ["globset::GlobMatcher::is_match; str::starts_with"]
    ctx = ctx_of(prog, FIND)
    if ctx is None:
        chk.anchor_missing("R1", FIND)
        return
    chk.analysed_body(ctx.body)
    f = ctx.fn
    cfg = ctx.cfg
    # own entries
    own = [(bb, t) for bb, t in ctx.calls("std::collections::hash::map::HashMap::get")
           if all(o.kind == "param" and o.key[1] == "self" and o.fields == ("targets",) for o in ctx.origins.of_operand(t.args[0]))]
    rec = ctx.calls(FIND)
    chk.floor("R1", len(own) + len(rec), 2, "own-entry lookup and recursive lookup in find_target")
    # closures must not recurse (a lookup hidden in a closure escapes the pruning guard)
    for b in body_family(prog, ctx.body.path):
        if b is ctx.body:
            continue
        for bb, t in b.calls():
            if t.is_call_to(FIND):
                chk.fail("R1", f, "recursion-in-closure", "find_target recurses from inside a closure (%s) where the "
                         "per-delegation paths test cannot guard it" % b.path, site_of(t.sp))
    own_none = []
    for bb, t in own:
        own_none.extend(ctx.track_call(bb).neg_edges(0))
        nm = ctx.origins.of_operand(t.args[1])
        chk.require(all(o.kind == "param" and o.key[1] == "target_name" for o in nm) and bool(nm), "R1", f, "own-lookup-by-name",
                    "the own-entry lookup is not keyed by the requested name", ctx.site(bb))
    is_role = lambda o: o.kind == "param" and o.key[1] == "self" and o.fields[:2] == ("delegations", "roles")
    for bb, t in rec:
        recv = ctx.origins.of_operand(t.args[0])
        chk.require(bool(recv) and all(is_role(o) and o.fields[2:] == ("targets", "signed") for o in recv), "R1", f,
                    "recurses-into-delegate", "the recursive lookup does not go into a delegated role's targets: %s" % sorted(map(repr, recv)), ctx.site(bb))
        # own entries first
        p = cfg.witness_path([bb], own_none)
        chk.require(bool(own_none) and p is None, "R1", f, "own-entries-first",
                    "a delegate is searched on a path where the role's own entry for the name was not looked up "
                    "(and found absent) first", ctx.site(bb), path=ctx.describe_path(p))
        # pruning guard
        guards = []
        for mb, mt in ctx.calls(PS_MATCH):
            r = ctx.origins.of_operand(mt.args[0])
            n = ctx.origins.of_operand(mt.args[1])
            if r and all(is_role(o) and o.fields[2:] == ("paths",) for o in r) and n and all(o.kind == "param" and o.key[1] == "target_name" for o in n):
                guards.extend(ctx.track_call(mb).pos_edges(0))
        p = cfg.witness_path([bb], guards)
        chk.require(bool(guards) and p is None, "R1", f, "pruned-by-delegated-paths",
                    "a delegated role is searched for the target on a path that does not pass the true edge of "
                    "role.paths.matches_target_name(name): a role could provide targets outside its delegated paths",
                    ctx.site(bb), path=ctx.describe_path(p))
        # the guard and the recursion are about the same loop element
        loop = next((c for c in cfg.sccs() if bb in c), None)
        chk.require(loop is not None, "R1", f, "visits-all-delegates", "the recursive lookup is not inside the loop over delegations.roles", ctx.site(bb))
        if loop is not None:
            nexts = [(nb, nt) for nb, nt in ctx.calls(NEXT) if nb in loop]
            ok = len(nexts) == 1
            if ok:
                src = deep_origins(ctx, nexts[0][1].args[0], 4)
                ok = any(is_role(o) and o.fields == ("delegations", "roles") for o in src) and \
                    not any(o.kind == "call" and o.key[1].endswith(("::rev", "::skip", "::filter", "::take")) for o in src)
                # guard call inside the same loop iteration
                ok = ok and all(e[0] in loop for e in guards)
            chk.require(ok, "R1", f, "listed-order",
                        "delegates are not visited by plain forward iteration over delegations.roles", ctx.site(bb))
    # what is returned with Ok
    rets = set()
    for b in ctx.body.blocks:
        for s in b.stmts:
            if s.k == "assign" and s.place.local == 0 and s.rv.k == "agg" and s.rv.j.get("variant") == "Ok":
                rets |= ctx.origins.of_operand(s.rv.ops[0])
    own_bbs = set(bb for bb, _ in own)
    rec_bbs = set(bb for bb, _ in rec)
    chk.require(bool(rets) and all(o.kind == "call" and o.key[0] in (own_bbs | rec_bbs) for o in rets), "R1", f,
                "returns-own-or-delegate-entry", "find_target returns %s" % sorted(map(repr, rets)))
    r2_matchers(chk, prog)
    r3_validate(chk, prog)


def r2_matchers(chk, prog):
    ctx = ctx_of(prog, PS_MATCH)
    if ctx is None:
        chk.anchor_missing("R2", PS_MATCH)
        return
    chk.analysed_body(ctx.body)
    true_blocks, false_blocks = [], []
    for b in ctx.body.blocks:
        for s in b.stmts:
            if s.k == "assign" and s.place.local == 0 and s.rv.k == "use" and s.rv.ops[0].is_const:
                (true_blocks if s.rv.ops[0].const_int == 1 else false_blocks).append(b.idx)
    pos = []
    for bb, t in ctx.calls(PP_MATCH, PH_MATCH):
        n = ctx.origins.of_operand(t.args[1])
        if n and all(o.kind == "param" and o.key[1] == "target_name" for o in n):
            pos.extend(ctx.track_call(bb).pos_edges(0))
    p = ctx.cfg.witness_path(true_blocks, pos)
    chk.require(bool(true_blocks) and bool(pos) and p is None, "R2", ctx.fn, "true-only-from-a-matcher",
                "PathSet::matches_target_name returns true on a path that does not pass the true edge of a "
                "pattern / hash-prefix matcher applied to the name", path=ctx.describe_path(p))
    others = ctx.origins.of_local(0)
    chk.require(all(o.kind == "const" for o in others), "R2", ctx.fn, "result-is-literal",
                "unrecognised-idiom: the result is not a literal true/false: %s" % sorted(map(repr, others)))
    n = 0
    for m in (PP_MATCH, PH_MATCH):
        mctx = ctx_of(prog, m)
        if mctx is None:
            chk.anchor_missing("R2", m)
            continue
        chk.analysed_body(mctx.body)
        n += 1
        names = [t for bb, t in mctx.calls(RESOLVED)]
        raws = [t for bb, t in mctx.calls("tough::target_name::TargetName::raw")]
        deep = deep_origins(mctx, _ret(mctx), 6) if _ret(mctx) is not None else set()
        ok = bool(names) and not raws and any(is_call(o, RESOLVED) for o in deep)
        chk.require(ok, "R2", mctx.fn, "matches-resolved-name",
                    "the matcher does not test TargetName::resolved() (the name files are stored and served "
                    "under): a name like 'a/../b' would be authorised by the wrong role")
        sel = any(o.kind == "param" and o.key[1] == "self" for o in deep)
        chk.require(sel, "R2", mctx.fn, "matches-against-own-pattern", "the matcher's result does not depend on its own pattern/prefix")
        if m == PP_MATCH:
            # the answer of a path pattern is the answer of its compiled glob and nothing else: a hand-made
            # shortcut (prefix / suffix test on the pattern text) decides differently at separators
            ret = mctx.origins.of_local(0)
            GLOB = ("globset::glob::GlobMatcher::is_match", "globset::GlobMatcher::is_match")
            chk.require(bool(ret) and all(o.kind == "call" and (o.key[1].endswith("GlobMatcher::is_match") or is_call(o, *GLOB)) for o in ret),
                        "R2", mctx.fn, "result-is-the-glob-match",
                        "PathPattern::matches_target_name can answer otherwise than glob.is_match(name): %s — a shortcut such "
                        "as name.starts_with(dir) for `dir/*` also matches `dir-other/..`" % sorted(map(repr, ret))[:3])
    chk.floor("R2", n, 2, "matchers (PathPattern, PathHashPrefix)")


def _ret(ctx):
    for b in ctx.body.blocks:
        t = b.term
        if t is not None and t.k == "call" and t.dest.local == 0 and not t.dest.proj:
            class O:
                pass
            o = O()
            o.is_const = False
            o.k = "copy"
            o.place = t.dest
            return o
    return None


def r3_validate(chk, prog):
    vctx = ctx_of(prog, VALIDATE)
    if vctx is None:
        chk.anchor_missing("R3", VALIDATE)
    else:
        chk.analysed_body(vctx.body)
        finds = vctx.calls(FIND)
        pos = []
        for bb, t in finds:
            pos.extend(vctx.track_call(bb).neg_edges(0))
        # every Err of find_target must reach an Err return: Ok unreachable from the neg edges
        okb = vctx.ok_return_blocks()
        r = vctx.cfg.reach_from_edges(pos) if pos else set()
        chk.require(bool(finds) and bool(pos) and not (r & set(okb)), "R3", vctx.fn, "unreachable-target-is-error",
                    "validate() can return Ok although find_target failed for a listed target")
        it = [t for bb, t in vctx.calls("tough::schema::Targets::targets_iter")]
        loop_ok = False
        for bb, t in finds:
            loop = next((c for c in vctx.cfg.sccs() if bb in c), None)
            if loop is not None:
                for nb, nt in vctx.calls(NEXT):
                    if nb in loop and any(is_call(o, "tough::schema::Targets::targets_iter") for o in deep_origins(vctx, nt.args[0], 4)):
                        loop_ok = True
            recv = vctx.origins.of_operand(t.args[0])
            chk.require(all(o.kind == "param" and o.key[1] == "self" and not o.fields for o in recv) and bool(recv), "R3", vctx.fn,
                        "looks-up-from-the-top", "validate() does not resolve each target from the role it is called on", vctx.site(bb))
        chk.require(bool(it) and loop_ok, "R3", vctx.fn, "checks-every-listed-target",
                    "validate() does not run find_target for every item of targets_iter()")
    for fn, label in (("tough::load_targets", "client"), ("tough::editor::RepositoryEditor::sign", "editor")):
        ctx = async_body(prog, fn)
        if ctx is None:
            chk.anchor_missing("R3", fn)
            continue
        chk.analysed_body(ctx.body)
        vals = ctx.calls(VALIDATE)
        pos = []
        for bb, t in vals:
            pos.extend(ctx.track_call(bb).pos_edges(0))
        okb = ctx.ok_return_blocks()
        p = ctx.cfg.witness_path(okb, pos)
        chk.require(bool(vals) and bool(pos) and p is None, "R3", ctx.fn, label + ":ok-needs-validate",
                    "%s returns Ok on a path that does not pass the Ok edge of Targets::validate()" % fn,
                    path=ctx.describe_path(p))
        if fn == "tough::load_targets":
            lds = [bb for bb, _ in ctx.calls("tough::load_delegations")]
            for bb, t in vals:
                # validate after the delegations were loaded: from a load_delegations call, Ok is reachable only via validate;
                # and validate is not followed by load_delegations
                after = ctx.cfg.reach([bb])
                chk.require(bool(lds) and not (set(lds) & (after - {bb})), "R3", ctx.fn, "validate-after-delegations",
                            "validate() runs before the delegated roles are loaded", ctx.site(bb))
                recv = ctx.origins.of_operand(t.args[0])
                ret = set()
                for b in ctx.body.blocks:
                    for s in b.stmts:
                        if s.k == "assign" and s.place.local == 0 and s.rv.k == "agg" and s.rv.j.get("variant") == "Ok":
                            ret |= ctx.origins.of_operand(s.rv.ops[0])
                chk.require(bool(recv) and set(base(o) for o in recv) == ret and all(o.fields == ("signed",) for o in recv), "R3", ctx.fn,
                            "validates-returned-document", "validate() is not applied to the document that is returned", ctx.site(bb))
