"""C09 — work and data taken from an untrusted repository are bounded."""
from .common import *
from .c05 import meta_lookups, is_meta_origin, FETCH_SHA, FETCH_MAX
from ..templates import templates_of, shape

TFETCH = "tough::transport::Transport::fetch"
CFT = "tough::cache::<impl tough::Repository>::cache_file_from_transport"
LOADD = "tough::load_delegations"


def param_names(prog, fn):
    b = prog.body(fn)
    if b is None:
        return {}
    out = {}
    for n, p, a in b.vdi:
        if not p.proj and 1 <= p.local <= b.argc:
            out[p.local - 1] = n
    return out


def is_limit(o, name):
    return o.kind in ("upvar", "param") and o.key[1] == name and not o.fields


def run(chk, prog):
    chk.rules_live = ["R1", "R2", "R3", "R4", "R5"]
    chk.explanation = (
        "Who-may-call + provenance + loop/recursion rules: Transport::fetch is called only by "
        "fetch_max_size (which always wraps the stream in max_size_adapter), the local-file digest "
        "check of the editor and the DefaultTransport dispatcher; for each of the metadata fetch sites "
        "in lib.rs/cache.rs the size bound originates only from the file's own pin or the configured "
        "limit of that role (origins followed through Repository::load -> load_* -> load_delegations "
        "parameters); every CFG loop containing a fetch iterates an in-memory collection or is guarded "
        "by version < original + max_root_updates; recursion that fetches must carry a bound. R5: the "
        "cap itself (max_size_adapter's closure) passes a chunk on only on the edge where the bytes "
        "received so far including that chunk are <= the bound, counts every Ok chunk, and counts "
        "before it tests (shared with C05-R4).")
    chk.not_decided = ["wall-clock termination", "transports that never return a chunk"]
    chk.assumptions = ["iterating a slice/range/HashMap that is not modified in the loop terminates"]
    r1_who_may_fetch(chk, prog)
    r2_provenance(chk, prog)
    r3_loops(chk, prog)
    from .c06 import SubCheck
    from . import c05
    c05.r4_adapters(SubCheck(chk, "R5"), prog)


def r1_who_may_fetch(chk, prog):
    allowed = {
        "tough::fetch::fetch_max_size": "the size-capped fetch",
        "tough::editor::signed::TargetsWalker::target_path": "editor: digest check of a local target file",
        "<tough::transport::DefaultTransport as tough::transport::Transport>::fetch": "dispatcher",
        "tough::transport::DefaultTransport::handle_http": "dispatcher",
    }
    callers = set()
    n = 0
    for b in prog.bodies.values():
        if "/.cargo/" in b.file:
            continue
        for bb, t in b.calls():
            if t.is_call_to(TFETCH):
                n += 1
                callers.add(short_fn(b.path))
                chk.require(short_fn(b.path) in allowed, "R1", short_fn(b.path), "uncapped-fetch",
                            "Transport::fetch is called directly in %s: data from the repository is read without "
                            "the max_size_adapter bound" % b.path, site_of(t.sp))
    # configuration B (no `http` feature) has no HttpTransport dispatch call
    chk.floor("R1", n, 4 if getattr(prog, "config", "A") == "A" else 3, "Transport::fetch call sites")
    # (fetch_max_size wraps: C05-R5, re-checked here in one obligation)
    ctx = async_body(prog, FETCH_MAX)
    if ctx is not None:
        ret = set()
        for b in ctx.body.blocks:
            for s in b.stmts:
                if s.k == "assign" and s.place.local == 0 and s.rv.k == "agg" and s.rv.j.get("variant") == "Ok":
                    ret |= ctx.origins.of_operand(s.rv.ops[0])
        ok = only_calls(ret, "tough::io::max_size_adapter")
        if ok:
            for o in ret:
                sz = ctx.origins.of_operand(o.extra.args[2])
                ok = ok and bool(sz) and all(is_limit(x, "max_size") for x in sz)
        chk.require(ok, "R1", ctx.fn, "always-capped", "fetch_max_size does not return max_size_adapter(stream, .., max_size, ..)")
    else:
        chk.anchor_missing("R1", FETCH_MAX)


def r2_provenance(chk, prog):
    n = 0
    # loaders: (function, limit param, parent doc, pinned key or None)
    specs = [
        ("tough::load_root", "max_root_size", None, None, "max_root_size"),
        ("tough::load_timestamp", "max_timestamp_size", None, None, "max_timestamp_size"),
        ("tough::load_snapshot", "max_snapshot_size", "timestamp", "snapshot.json", "max_snapshot_size"),
        ("tough::load_targets", "max_targets_size", "snapshot", "targets.json", "max_targets_size"),
        ("tough::load_delegations", "max_targets_size", "snapshot", None, None),
    ]
    load = async_body(prog, "tough::Repository::load")
    for fn, limit, parent, key, field in specs:
        ctx = async_body(prog, fn)
        if ctx is None:
            chk.anchor_missing("R2", fn)
            continue
        chk.analysed_body(ctx.body)
        f = ctx.fn
        lookups = []
        if parent and key:
            lookups = meta_lookups(ctx, parent, key)
        elif parent:
            for bb, t, tpls in meta_lookups(ctx, parent):
                if tpls and all(shape(p_) == 'RAW".json"' for p_, _ in tpls):
                    lookups.append((bb, t, tpls))
        len_pred = is_meta_origin(ctx, lookups, ("length",)) if lookups else (lambda o: False)
        for bb, t in ctx.calls(FETCH_MAX, FETCH_SHA):
            n += 1
            size = ctx.origins.of_operand(t.args[2])
            bad = [o for o in size if not (is_limit(o, limit) or len_pred(o))]
            if lookups:
                chk.require(any(len_pred(o) for o in size), "R2", f, "pinned-length-applies",
                            "the parent document pins a length for %s but this fetch is bounded only by %s: a "
                            "longer file is accepted, and a legitimate one is refused when the configured limit "
                            "is smaller than the pinned length" % (key or "this delegated role file", sorted(map(repr, size))), ctx.site(bb))
            # inside a loop the bound belongs to THIS iteration's file: it is computed in the loop body, not
            # carried in a variable that an earlier iteration may have set
            comp = next((c for c in ctx.cfg.sccs() if len(c) > 1 and bb in c), None)
            if comp is not None:
                dbs = def_blocks_of(ctx, t.args[2])
                inside = [x for x in dbs if x in comp]
                outside = [x for x in dbs if x not in comp]
                chk.require(not (inside and outside), "R2", f, "bound-computed-per-iteration",
                            "the size bound of a fetch in a loop is a variable initialised before the loop and updated "
                            "inside it: a file without a pinned length inherits the bound of an earlier file",
                            ctx.site(bb))
            chk.require(bool(size) and not bad, "R2", f, "size-bound@L%s" % "fetch",
                        "the size bound of this fetch originates from %s; allowed: the configured `%s`%s — applying "
                        "another file's length refuses legitimate files or over-accepts"
                        % (sorted(map(repr, bad)), limit, " or the length pinned for this very file" if lookups else ""),
                        ctx.site(bb))
        # what callers pass for the limit parameter
        pn = param_names(prog, fn)
        idx = next((i for i, nm in pn.items() if nm == limit), None)
        if idx is None:
            chk.anchor_missing("R2", fn, "no parameter named %s" % limit)
            continue
        for b in prog.bodies.values():
            if not b.path.startswith("tough::"):
                continue
            cctx = None
            for bb, t in b.calls():
                if not t.is_call_to(fn) or t.is_call_to(fn + "::{closure#0}"):
                    continue
                if (t.resolved or "").endswith("{closure#0}"):
                    continue
                cctx = cctx or ctx_of(prog, b.path)
                arg = cctx.origins.of_operand(t.args[idx])
                caller = cctx.fn
                if caller == "tough::Repository::load":
                    ok = bool(arg) and all(o.fields[-1:] == (field,) and
                                           (is_call(o, "core::option::Option::unwrap_or_default") or "limits" in o.fields or True)
                                           for o in arg)
                    ok = ok and all(any(is_call(x, "core::option::Option::unwrap_or_default") or x.fields[-2:-1] == ("limits",)
                                        or x.fields[-1:] == (field,) for x in [o]) for o in arg)
                    chk.require(ok, "R2", caller, "passes-%s" % field,
                                "Repository::load passes %s as %s of %s (expected limits.%s)"
                                % (sorted(map(repr, arg)), limit, fn, field), cctx.site(bb))
                else:
                    ok = bool(arg) and all(is_limit(o, "max_targets_size") for o in arg)
                    chk.require(ok, "R2", caller, "passes-limit-to-" + fn.split("::")[-1],
                                "%s passes %s as the size bound for delegated role files; only the configured "
                                "max_targets_size may be passed on (not another file's pinned length)"
                                % (caller, sorted(map(repr, arg))), cctx.site(bb))
    chk.floor("R2", n, 7, "size-capped metadata fetch sites in lib.rs")
    r2_cache_provenance(chk, prog)


def r2_cache_provenance(chk, prog):
    """cache.rs: each metadata copy is bounded by the limit configured for that role (or the length the
    timestamp pins for the snapshot) — never by another file's length (refuses legitimate files)"""
    cm = async_body(prog, "tough::cache::<impl tough::Repository>::cache_metadata_impl")
    cr = async_body(prog, "tough::cache::<impl tough::Repository>::cache_root_chain")
    table = {
        "snapshot_filename": {"max_snapshot_size"}, "targets_filename": {"max_targets_size"},
        '"timestamp.json"': {"max_timestamp_size"}, "delegated_filename": {"max_targets_size"},
        'VERSION".root.json"': {"max_root_size"}, 'RAW".root.json"': {"max_root_size"},
    }
    nc = 0
    for ctx in (cm, cr):
        if ctx is None:
            chk.anchor_missing("R2", "cache metadata functions")
            continue
        chk.analysed_body(ctx.body)
        for bb, t in ctx.calls(CFT):
            nc += 1
            name_og = deep_origins(ctx, t.args[1], 3)
            label = None
            for o in name_og:
                for k in ("snapshot_filename", "targets_filename", "delegated_filename"):
                    if o.kind == "call" and o.key[1].endswith("::" + k):
                        label = k
            if label is None:
                shapes = [shape(p_) for p_, _ in templates_of(ctx, t.args[1])]
                label = shapes[0] if shapes else "?"
            want = table.get(label)
            size = ctx.origins.of_operand(t.args[2])
            ok = want is not None and bool(size)
            for o in size:
                if o.fields[-1:] and o.fields[-1] in (want or ()) and "limits" in o.fields:
                    continue
                if label == "snapshot_filename" and is_call(o, "tough::cache::<impl tough::Repository>::max_snapshot_size"):
                    continue
                ok = False
            chk.require(ok, "R2", ctx.fn, "cache-size-bound:" + label.strip('"'),
                        "cache: the size bound for %s originates from %s, expected limits.%s"
                        % (label, sorted(map(repr, size)), sorted(want or ["?"])), ctx.site(bb))
    chk.floor("R2-cache", nc, 5, "cache_file_from_transport call sites")
    cf = async_body(prog, CFT)
    if cf is not None:
        chk.analysed_body(cf.body)
        for bb, t in cf.calls(FETCH_MAX):
            size = cf.origins.of_operand(t.args[2])
            chk.require(bool(size) and all(is_limit(o, "max_size") for o in size), "R2", cf.fn, "uses-its-bound",
                        "cache_file_from_transport does not pass its max_size argument to fetch_max_size", cf.site(bb))


def r3_loops(chk, prog):
    FETCHERS = (FETCH_MAX, FETCH_SHA, CFT, LOADD)
    fns = ["tough::load_root", "tough::load_delegations",
           "tough::cache::<impl tough::Repository>::cache_metadata_impl",
           "tough::cache::<impl tough::Repository>::cache_root_chain"]
    nloops = 0
    for fn in fns:
        ctx = async_body(prog, fn)
        if ctx is None:
            chk.anchor_missing("R3", fn)
            continue
        chk.analysed_body(ctx.body)
        f = ctx.fn
        cfg = ctx.cfg
        fetch_blocks = [bb for bb, _ in ctx.calls(*FETCHERS)]
        # outermost loops (maximal SCCs) that contain a fetch; the .await poll loops are inner cycles
        for comp in cfg.sccs():
            inside = [bb for bb in fetch_blocks if bb in comp]
            if not inside:
                continue
            # poll loops of `.await` contain the poll call, not the fetch call itself: comp here
            # contains the call block, so it is a real source-level loop
            nloops += 1
            kind = None
            # (a) iteration over an in-memory collection
            for bb, t in ctx.calls("core::iter::traits::iterator::Iterator::next"):
                if bb not in comp:
                    continue
                tr = ctx.track_call(bb)
                exits = [e for e in tr.neg_edges(0) if e[1] not in comp]
                src = deep_origins(ctx, t.args[0], 5)
                mem = [o for o in src if o.kind in ("param", "upvar") or (o.kind == "call" and (
                    o.key[1].endswith("::role_names") or "RangeInclusive" in o.key[1] or o.key[1].endswith("::rev")))]
                fetched = [o for o in src if is_call(o, *FETCHERS) or is_call(o, *SER_PARSE)]
                if exits and mem and not fetched:
                    kind = "iterates-in-memory-collection"
            # (b) guard: comparison with a limit whose failing edge leaves the loop and which dominates the fetch
            if kind is None:
                for (bb, op, a, b_, tr, sp) in ctx.comparisons():
                    if bb not in comp or op not in ("lt", "le", "gt", "ge"):
                        continue
                    da, db = deep_origins(ctx, a, 4), deep_origins(ctx, b_, 4)
                    lim = lambda s: any(is_limit(o, "max_root_updates") for o in s)
                    ver = lambda s: any(o.fields[-1:] == ("version",) for o in s)
                    if ver(da) and lim(db):
                        edges, strict = normalise_le(op, True, tr)
                    elif lim(da) and ver(db):
                        edges, strict = normalise_le(op, False, tr)
                    else:
                        continue
                    # the guard's continuing edge precedes the fetch in every iteration, the first included
                    if edges and cfg.witness_path(inside, edges) is not None:
                        continue
                    # every cycle through the fetch passes the guard's continuing edge
                    cyc = True
                    for fb in inside:
                        r = cfg.reach([fb], removed_edges=set(edges))
                        if fb in set(d for s_ in r for (s2, d, l) in cfg.succ[s_] if s2 in comp and (s2, d, l) not in set(edges)) and \
                                _cycle_without(cfg, comp, fb, set(edges)):
                            cyc = False
                    if edges and cyc:
                        kind = "guarded-by-max_root_updates"
                        # the baseline is the shipped root's version (does not move with the loop)
                        base_og = set()
                        for o in (da | db):
                            if o.kind == "bin" and o.key[2].startswith("Add"):
                                for x in o.extra.rv.ops:
                                    if x.place is not None:
                                        base_og |= ctx.origins.of_operand(x, at=o.key[0])
                        fixed = [o for o in base_og if o.fields[-1:] == ("version",)]
                        chk.require(bool(fixed) and len(set(base(o) for o in fixed)) == 1, "R3", f, "budget-baseline-fixed",
                                    "the root-update budget is measured from a value that moves with the loop: the walk "
                                    "is not bounded by max_root_updates", site_of(sp))
            chk.require(kind is not None, "R3", f, "loop-with-fetch-bounded@%s" % _loop_label(ctx, comp),
                        "a loop that fetches from the repository is neither an iteration over an in-memory "
                        "collection nor guarded by a limit whose failing edge leaves the loop",
                        ctx.site(inside[0]), detail=str(kind))
    chk.floor("R3", nloops, 4, "loops containing a fetch")
    # max_root_updates: what Repository::load passes
    load = async_body(prog, "tough::Repository::load")
    if load is not None:
        pn = param_names(prog, "tough::load_root")
        idx = next((i for i, nm in pn.items() if nm == "max_root_updates"), None)
        for bb, t in load.calls("tough::load_root"):
            arg = load.origins.of_operand(t.args[idx]) if idx is not None else set()
            chk.require(bool(arg) and all(o.fields[-1:] == ("max_root_updates",) for o in arg), "R3", load.fn,
                        "passes-max_root_updates", "Repository::load passes %s as max_root_updates" % sorted(map(repr, arg)), load.site(bb))
    # recursion through fetches
    ctx = async_body(prog, LOADD)
    if ctx is not None:
        rec = ctx.calls(LOADD)
        if rec:
            # a bound: some parameter that is tested with an early exit and extended before the recursive call
            pn = param_names(prog, LOADD)
            bounded = False
            for i, nm in pn.items():
                if nm in ("visited", "depth", "seen", "remaining", "budget", "ancestors"):
                    bounded = True
            for (bb, op, a, b_, tr, sp) in ctx.comparisons():
                for o in deep_origins(ctx, a, 3) | deep_origins(ctx, b_, 3):
                    if o.kind in ("upvar", "param") and o.key[1] in ("depth", "remaining", "budget"):
                        bounded = True
            for bb, t in ctx.calls("std::collections::hash::set::HashSet::insert", "std::collections::hash::set::HashSet::contains"):
                if any(o.kind in ("upvar", "param") for o in ctx.origins.of_operand(t.args[0])):
                    bounded = True
            chk.require(bounded, "R3", ctx.fn, "recursion-bound",
                        "load_delegations recurses into roles fetched inside the recursion with no visited set or "
                        "depth bound: a delegation cycle (A delegates to B, B to A) makes the client fetch without end",
                        ctx.site(rec[0][0]))


def _cycle_without(cfg, comp, fb, removed):
    """is there a cycle through fb inside comp avoiding the removed edges?"""
    seen = set()
    work = [d for (s, d, l) in cfg.succ[fb] if d in comp and (s, d, l) not in removed]
    while work:
        b = work.pop()
        if b == fb:
            return True
        if b in seen:
            continue
        seen.add(b)
        for e in cfg.succ[b]:
            if e[1] in comp and e not in removed:
                work.append(e[1])
    return False


def _loop_label(ctx, comp):
    lines = sorted(set(ctx.body.blocks[b].term.sp["l"] for b in comp if ctx.body.blocks[b].term is not None))
    for b in sorted(comp):
        t = ctx.body.blocks[b].term
        if t is not None and (t.sp.get("x") or "").startswith("desugar:ForLoop"):
            return "for"
    return "loop"
