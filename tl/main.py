import argparse
import importlib
import json
import os
import sys
import traceback

from . import build, facts, report


def main(argv):
    ap = argparse.ArgumentParser()
    ap.add_argument("prop")
    ap.add_argument("--tier", default=os.environ.get("VERIF_TIER", "quick"))
    ap.add_argument("--replay")
    ap.add_argument("--facts", help="use an existing facts directory (self-validation only)")
    ap.add_argument("--repo", help="analyse this tree instead of /repo (self-validation only)")
    ap.add_argument("--no-evidence", action="store_true", help="do not write evidence files (self-validation)")
    a = ap.parse_args(argv)
    prop = a.prop.upper()
    seed = int(os.environ.get("VERIF_SEED", "0") or 0)
    tier = a.tier if a.tier in ("quick", "thorough") else "quick"
    if a.replay:
        with open(a.replay) as f:
            v = json.load(f)
        print("replaying %s: re-running the check of %s on the current tree; the recorded violation was:" % (a.replay, prop))
        print("  %s %s: %s" % (v.get("site"), v.get("key"), v.get("message")))
    chk = report.Check(prop, tier, seed)
    chk.write_evidence = not a.no_evidence
    try:
        mod = importlib.import_module("tl.rules." + prop.lower())
    except ImportError:
        print("no rules for", prop)
        return 2
    try:
        d = a.facts or build.facts_dir("A", a.repo)
    except build.BuildError as e:
        tail = "\n".join(str(e).splitlines()[-40:])
        print(tail)
        chk.fail("BUILD", "workspace", "cargo-check", "the tree does not compile under the fact "
                 "extractor (cargo +nightly check); no facts, no verdict", kind="build-failed")
        return chk.finish() or 1
    prog = facts.load(d)
    prog.facts_dir = d
    prog.config = "A"
    chk.analysed["configs"].append("A: cargo check --workspace (tough with feature http)")
    try:
        from .rules import common as _common
        pw = _common.discover_parse_wrappers(prog)
        if pw:
            chk.analysed["configs"].append("parse wrappers treated as parse sites: %s" % ", ".join(pw))
        mod.run(chk, prog)
        from .rules import errors
        errors.run(chk, prog, prop)
        if tier == "thorough" and not a.repo:
            thorough(chk, mod, prop, a)
    except Exception:
        traceback.print_exc()
        chk.fail("ENGINE", "checker", "exception", "the checker raised an exception (fails closed): %s"
                 % traceback.format_exc().splitlines()[-1], kind="engine-error")
    return chk.finish()


CONFIG_B_PROPS = {"C01", "C02", "C03", "C04", "C05", "C06", "C07", "C08", "C09", "C14", "C15", "C16", "C19"}


def thorough(chk, mod, prop, a):
    """thorough tier = quick tier + (1) the same rules over configuration B (tough built with
    --no-default-features, i.e. the #[cfg(not(feature = "http"))] code) and (2) self-validation of the
    checker: every committed mutant / seeded change for this property is applied to a scratch copy of
    the CURRENT /repo tree, which must still compile under the fact extractor and must be reported by
    the rules.  (2) examines variant sources, it does not execute tough; its outcome is recorded in
    the evidence (coverage.self_validation) and never turns into a VIOLATION of the property."""
    import glob
    import time
    from . import mutate
    # (1) configuration B
    if prop in CONFIG_B_PROPS:
        try:
            d = build.facts_dir("B")
            progb = facts.load(d)
            progb.facts_dir = d
            progb.config = "B"
            sub = report.Check(prop, "thorough", chk.seed)
            mod.run(sub, progb)
            from .rules import errors
            errors.run(sub, progb, prop)
            chk.analysed["configs"].append("B: cargo check -p tough --no-default-features (%d rule instances)" % len(sub.obligations))
            seen = set(v["key"] for v in chk.violations)
            for o in sub.obligations:
                o = dict(o)
                o["rule"] = o["rule"] + "@B"
                chk.obligations.append(o)
            for v in sub.violations:
                if v["key"] not in seen:
                    v = dict(v)
                    v["message"] = "[configuration B: tough without the http feature] " + v["message"]
                    chk.violations.append(v)
        except build.BuildError as e:
            chk.fail("BUILD", "tough --no-default-features", "cargo-check", "configuration B does not compile", kind="build-failed")
    # (2) self-validation on mutants
    pats = sorted(glob.glob(os.path.join(build.VERIF, "mutants", prop, "*.patch")))
    limit = int(os.environ.get("VERIF_MUTANT_LIMIT", "0") or 0)
    if chk.seed:
        import random
        random.Random(chk.seed).shuffle(pats)
    if limit < 0:
        pats = []
    elif limit:
        pats = pats[:limit]
    results = []
    t0 = time.time()
    budget = float(os.environ.get("VERIF_MUTANT_BUDGET_S", "420") or 0)
    skipped = 0
    for p in pats:
        if budget and time.time() - t0 > budget:
            skipped += 1
            continue
        st, out = mutate.run_on_patch(prop, p)
        rules = sorted(set(l.split("rule=")[1].split(" ")[0] for l in out.splitlines() if " rule=" in l and "VIOLATION" in l.upper()))
        results.append({"mutant": os.path.basename(p), "status": st, "rules": rules})
        print("  self-validation %-60s %s %s" % (os.path.basename(p), st, ",".join(rules)))
    missed = [r for r in results if r["status"] == "silent"]
    chk.self_validation = {"mutants": len(results), "flagged": sum(1 for r in results if r["status"] == "flagged"),
                           "silent": [r["mutant"] for r in missed],
                           "not_applicable": [r["mutant"] for r in results if r["status"] in ("patch-failed", "build-failed")],
                           "results": results, "wall_s": round(time.time() - t0, 1),
                           "not_run_time_budget": skipped, "time_budget_s": budget}
    if skipped:
        print("  self-validation: %d further mutants not run (time budget VERIF_MUTANT_BUDGET_S=%g s; 0 = no budget; "
              "VERIF_SEED changes the order)" % (skipped, budget))
    for r in missed:
        print("SELF-VALIDATION: mutant %s of %s was NOT reported by the rules (checker weakness, not a property violation)" % (r["mutant"], prop))
