import argparse
import importlib
import json
import os
import sys
import traceback

from . import build, facts, report


def main(argv):
    ap = argparse.ArgumentParser()
    ap.add_argument("prop")
    ap.add_argument("--tier", default=os.environ.get("VERIF_TIER", "quick"))
    ap.add_argument("--replay")
    ap.add_argument("--facts", help="use an existing facts directory (self-validation only)")
    ap.add_argument("--repo", help="analyse this tree instead of /repo (self-validation only)")
    ap.add_argument("--no-evidence", action="store_true", help="do not write evidence files (self-validation)")
    a = ap.parse_args(argv)
    prop = a.prop.upper()
    seed = int(os.environ.get("VERIF_SEED", "0") or 0)
    tier = a.tier if a.tier in ("quick", "thorough") else "quick"
    if a.replay:
        with open(a.replay) as f:
            v = json.load(f)
        print("replaying %s: re-running the check of %s on the current tree; the recorded violation was:" % (a.replay, prop))
        print("  %s %s: %s" % (v.get("site"), v.get("key"), v.get("message")))
    chk = report.Check(prop, tier, seed)
    chk.write_evidence = not a.no_evidence
    try:
        mod = importlib.import_module("tl.rules." + prop.lower())
    except ImportError:
        print("no rules for", prop)
        return 2
    try:
        d = a.facts or build.facts_dir("A", a.repo)
    except build.BuildError as e:
        tail = "\n".join(str(e).splitlines()[-40:])
        print(tail)
        chk.fail("BUILD", "workspace", "cargo-check", "the tree does not compile under the fact "
                 "extractor (cargo +nightly check); no facts, no verdict", kind="build-failed")
        return chk.finish() or 1
    prog = facts.load(d)
    prog.facts_dir = d
    chk.analysed["configs"].append("A: cargo check --workspace (tough with feature http)")
    try:
        mod.run(chk, prog)
        if tier == "thorough" and hasattr(mod, "run_thorough"):
            mod.run_thorough(chk, prog, a)
    except Exception:
        traceback.print_exc()
        chk.fail("ENGINE", "checker", "exception", "the checker raised an exception (fails closed): %s"
                 % traceback.format_exc().splitlines()[-1], kind="engine-error")
    return chk.finish()
