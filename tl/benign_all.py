"""python3 -m tl.benign_all [substr]: behaviour-preserving variants must stay SILENT (false-alarm test)."""
import glob, os, re, sys
from . import build, mutate

def main():
    args = [a for a in sys.argv[1:] if not a.startswith("--")]
    sub = args[0] if args else ""
    bad = 0
    for p in sorted(glob.glob(os.path.join(build.VERIF, "benign", "*.patch"))):
        if sub not in p:
            continue
        prop = os.path.basename(p).split("-")[0]
        if "--all-props" in sys.argv or prop == "ALL":
            # the variant must be silent under EVERY property's check, not only the one it was written for
            sts = []
            for q in ["C%02d" % i for i in range(1, 21)]:
                st, out = mutate.run_on_patch(q, p)
                if st != "silent":
                    sts.append(q + ":" + st)
            print("%-50s %s" % (os.path.basename(p), "silent under all 20" if not sts else " ".join(sts)))
            bad += bool(sts)
            continue
        st, out = mutate.run_on_patch(prop, p)
        rules = sorted(set(re.findall(r"rule=(\S+) function=(.+?) instance=(\S+)", out)))
        print("%-50s %-12s %s" % (os.path.basename(p), st, "; ".join("%s:%s:%s" % (r, f.split("::")[-1], i) for r, f, i in rules)[:220]))
        if st != "silent":
            bad += 1
            if st == "build-failed":
                print("\n".join(out.splitlines()[-25:-8]))
    print("%d benign variants raised an alarm" % bad)

if __name__ == "__main__":
    main()
