"""Value flow inside one MIR body.

Two exact, flow-insensitive analyses:

* Tracker  — forward: from the result of a call to every place where the program branches on
  it (through `?`, `.context()`, `.await`, `is_ok()`, `if let Some(Ok(x))`, ...), giving the
  *outcome edges* (pos = Ok/Some/true/Continue/Ready, neg = Err/None/false/Break).
* Origins  — backward: the leaf sources a value can come from (parameter, captured variable,
  call result, constant, aggregate), with the named struct fields read on the way.

Both work from tables of functions whose effect on the tracked value is known; anything else
is reported as an unknown use so that a rule can fail closed ("unrecognised idiom").
"""
from .facts import path_match, strip_generics

POS = {"Ok", "Some", "Continue", "Ready", "true"}
NEG = {"Err", "None", "Break", "false"}

# arg0 (and for some, further args) -> dest, same polarity, same nesting level
PRESERVE = (
    "core::ops::try_trait::Try::branch",
    "snafu::ResultExt::context", "snafu::ResultExt::with_context",
    "snafu::OptionExt::context", "snafu::OptionExt::with_context",
    "core::result::Result::map_err", "core::result::Result::map",
    "core::option::Option::map", "core::option::Option::ok_or", "core::option::Option::ok_or_else",
    "core::result::Result::ok", "core::option::Option::as_ref", "core::result::Result::as_ref",
    "core::option::Option::as_mut", "core::option::Option::cloned", "core::option::Option::copied",
    "core::option::Option::as_deref", "core::result::Result::as_deref",
    "core::future::into_future::IntoFuture::into_future", "core::pin::Pin::new_unchecked",
    "core::pin::Pin::new", "core::pin::Pin::as_mut",
    "core::result::Result::and",
    "core::convert::Into::into", "core::convert::From::from",
    "core::ops::try_trait::FromResidual::from_residual",
)
PRESERVE_ALL_ARGS = ("core::result::Result::and",)
TO_BOOL_SAME = ("core::result::Result::is_ok", "core::option::Option::is_some")
TO_BOOL_FLIP = ("core::result::Result::is_err", "core::option::Option::is_none")
# dest = pos payload of arg0 (panics otherwise)
UNWRAP = ("core::result::Result::unwrap", "core::result::Result::expect",
          "core::option::Option::unwrap", "core::option::Option::expect",
          "core::result::Result::unwrap_or_else", "core::option::Option::unwrap_or_else")
POLL = ("core::future::future::Future::poll",)


class Branch:
    def __init__(self, bb, level, kind, flip):
        self.bb = bb
        self.level = level
        self.kind = kind
        self.flip = flip
        self.pos = []   # edges
        self.neg = []
        self.other = []

    def __repr__(self):
        return "Branch(bb%d L%d %s pos=%s neg=%s)" % (self.bb, self.level, self.kind, self.pos, self.neg)


class TrackResult:
    def __init__(self):
        self.branches = []
        self.payloads = {}     # level -> set(locals)
        self.unknown = []      # (bb, description)
        self.escapes = []      # (bb, how)
        self.visited = set()

    def pos_edges(self, level=0):
        return [e for b in self.branches if b.level == level and b.kind != "Poll" for e in b.pos]

    def neg_edges(self, level=0):
        return [e for b in self.branches if b.level == level and b.kind != "Poll" for e in b.neg]

    def all_neg_edges(self):
        return [e for b in self.branches if b.kind != "Poll" for e in b.neg]

    def locals_at(self, level):
        return self.payloads.get(level, set())


def _proj_levels(proj):
    """(levels, ok): number of pos payload unwraps in a projection; ok False if it leaves the
    enum structure (named struct field, index) or goes through a neg variant"""
    lv = 0
    i = 0
    pending_dc = None
    for e in proj:
        if e == "*":
            continue
        if isinstance(e, dict):
            if "dc" in e:
                pending_dc = e["dc"]
                continue
            if "f" in e and pending_dc is not None:
                if pending_dc in POS and e["f"] == 0:
                    lv += 1
                    pending_dc = None
                    continue
                return lv, False
            return lv, False
        return lv, False
    return lv, True


class Uses:
    """index: local -> list of (bb, stmt index or None for terminator)"""

    def __init__(self, body):
        self.body = body
        self.by_local = {}
        for b in body.blocks:
            if b.cleanup:
                continue
            for i, s in enumerate(b.stmts):
                if s.rv is None:
                    continue
                for l in _rv_locals(s.rv):
                    self.by_local.setdefault(l, []).append((b.idx, i))
            t = b.term
            if t is None:
                continue
            ls = set()
            if t.k == "call":
                for a in t.args:
                    if a.place is not None:
                        ls.add(a.place.local)
            elif t.k in ("switch", "assert"):
                if t.discr.place is not None:
                    ls.add(t.discr.place.local)
            elif t.k == "yield":
                pass
            for l in ls:
                self.by_local.setdefault(l, []).append((b.idx, None))


def _rv_locals(rv):
    out = set()
    if rv.place is not None:
        out.add(rv.place.local)
    for o in rv.ops:
        if o.place is not None:
            out.add(o.place.local)
    return out


class Tracker:
    def __init__(self, body, cfg):
        self.body = body
        self.cfg = cfg
        self.uses = Uses(body)

    def _switch_on(self, local, bb):
        """the switch terminator(s) that test `local` (normally in the same block)"""
        out = []
        blk = self.body.blocks[bb]
        if blk.term is not None and blk.term.k == "switch" and blk.term.discr.place is not None \
                and blk.term.discr.place.local == local and not blk.term.discr.place.proj:
            out.append(blk)
            return out
        for (ub, ui) in self.uses.by_local.get(local, []):
            if ui is None:
                b2 = self.body.blocks[ub]
                if b2.term.k == "switch" and b2.term.discr.place.local == local:
                    out.append(b2)
        return out

    def _is_unreachable(self, bb):
        t = self.body.blocks[bb].term
        return t is not None and t.k == "unreachable"

    def _record_enum_switch(self, res, blk, level, flip, variants, adt):
        t = blk.term
        br = Branch(blk.idx, level, adt.split("::")[-1] if adt else "?", flip)
        listed = set()
        for v, d in t.tv:
            name = variants.get(str(v))
            listed.add(name)
            self._classify(br, name, (blk.idx, d, v), flip)
        if not self._is_unreachable(t.otherwise):
            rest = [n for n in variants.values() if n not in listed]
            e = (blk.idx, t.otherwise, "otherwise")
            if len(rest) == 1:
                self._classify(br, rest[0], e, flip)
            else:
                br.other.append(e)
        res.branches.append(br)

    def _classify(self, br, name, edge, flip):
        if name in POS:
            (br.neg if flip else br.pos).append(edge)
        elif name in NEG:
            (br.pos if flip else br.neg).append(edge)
        else:
            br.other.append(edge)

    def _record_bool_switch(self, res, blk, level, flip):
        t = blk.term
        br = Branch(blk.idx, level, "bool", flip)
        for v, d in t.tv:
            e = (blk.idx, d, v)
            if v == 0:
                (br.pos if flip else br.neg).append(e)
            else:
                (br.neg if flip else br.pos).append(e)
        e = (blk.idx, t.otherwise, "otherwise")
        if not self._is_unreachable(t.otherwise):
            if any(v == 0 for v, _ in t.tv):
                (br.neg if flip else br.pos).append(e)
            else:
                (br.pos if flip else br.neg).append(e)
        res.branches.append(br)

    def track(self, local, level=0, is_bool=False):
        """follow `local` (holding the tracked value at nesting `level`)"""
        res = TrackResult()
        work = [(local, level, False, None, is_bool)]
        seen = set()
        while work:
            item = work.pop()
            if item in seen:
                continue
            seen.add(item)
            l, lv, flip, wrap, isb = item
            if wrap is None:
                res.payloads.setdefault(lv, set()).add(l)
            res.visited.add(l)
            for (ub, ui) in self.uses.by_local.get(l, []):
                blk = self.body.blocks[ub]
                if ui is not None:
                    s = blk.stmts[ui]
                    self._stmt_use(res, work, item, blk, s)
                else:
                    self._term_use(res, work, item, blk)
        return res

    def _stmt_use(self, res, work, item, blk, s):
        l, lv, flip, wrap, isb = item
        rv = s.rv
        dst_whole = not s.place.proj
        if rv.k in ("use", "ref", "copyderef", "cast"):
            src = rv.place if rv.place is not None else (rv.ops[0].place if rv.ops else None)
            if src is None or src.local != l:
                return
            plv, ok = _proj_levels(src.proj)
            if not ok:
                return  # field of the payload struct / error payload: leaves the tracked value
            nl = lv + plv
            nwrap = wrap
            if wrap == "poll" and plv >= 1:
                nwrap = None
                nl = lv + plv - 1
            if dst_whole:
                work.append((s.place.local, nl, flip, nwrap, isb))
            else:
                # stored into a field / payload of another local
                if s.place.local == 0:
                    res.escapes.append((blk.idx, "return"))
                else:
                    res.escapes.append((blk.idx, "stored into %r" % s.place))
            return
        if rv.k == "discr":
            if rv.place.local != l:
                return
            plv, ok = _proj_levels(rv.place.proj)
            if not ok:
                return
            variants = rv.j.get("vars", {})
            adt = rv.j.get("adt", "")
            kind_level = lv + plv
            for sw in self._switch_on(s.place.local, blk.idx):
                if wrap == "poll" and plv == 0:
                    br = Branch(sw.idx, kind_level, "Poll", flip)
                    for v, d in sw.term.tv:
                        nm = variants.get(str(v))
                        (br.pos if nm == "Ready" else br.other).append((sw.idx, d, v))
                    res.branches.append(br)
                else:
                    k2 = kind_level - 1 if wrap == "poll" else kind_level
                    self._record_enum_switch(res, sw, k2, flip, variants, adt)
            return
        if rv.k == "un" and rv.j["op"] == "Not":
            if rv.ops[0].place is not None and rv.ops[0].place.local == l and dst_whole:
                work.append((s.place.local, lv, not flip, wrap, True))
            return
        if rv.k == "agg":
            # wrapped again (Some(x), Ok(x), tuple for match): treat tuple/array as escape
            ak = rv.j["ak"]
            if ak == "adt" and rv.j["variant"] in POS and len(rv.ops) == 1:
                if dst_whole and s.place.local != 0:
                    work.append((s.place.local, lv - 1, flip, wrap, isb))
                else:
                    res.escapes.append((blk.idx, "return" if s.place.local == 0 else "stored"))
            else:
                res.escapes.append((blk.idx, "aggregate " + ak))
            return
        if rv.k == "bin":
            res.unknown.append((blk.idx, "binary op on tracked value: %r" % s))
            return

    def _term_use(self, res, work, item, blk):
        l, lv, flip, wrap, isb = item
        t = blk.term
        if t.k == "switch":
            if t.discr.place is not None and t.discr.place.local == l and not t.discr.place.proj:
                if isb or self.body.locals[l]["ty"] == "bool":
                    self._record_bool_switch(res, blk, lv, flip)
            return
        if t.k != "call":
            return
        argpos = [i for i, a in enumerate(t.args) if a.place is not None and a.place.local == l]
        if not argpos:
            return
        # only whole-value (or pos payload) arguments count
        a = t.args[argpos[0]]
        plv, ok = _proj_levels(a.place.proj)
        if not ok:
            return
        lv2 = lv + plv
        dest_whole = not t.dest.proj
        d = t.dest.local
        if t.is_call_to(*POLL):
            if argpos[0] == 0:
                work.append((d, lv2, flip, "poll", isb))
            return
        if t.is_call_to(*PRESERVE):
            if argpos[0] == 0 or t.is_call_to(*PRESERVE_ALL_ARGS):
                if d == 0:
                    res.escapes.append((blk.idx, "return"))
                elif dest_whole:
                    work.append((d, lv2, flip, wrap, isb))
            return
        if t.is_call_to(*TO_BOOL_SAME):
            work.append((d, lv2, flip, None, True))
            return
        if t.is_call_to(*TO_BOOL_FLIP):
            work.append((d, lv2, not flip, None, True))
            return
        if t.is_call_to(*UNWRAP):
            if argpos[0] == 0:
                work.append((d, lv2 + 1, flip, wrap, False))
            return
        if wrap is None:
            res.unknown.append((blk.idx, "passed to %s" % (t.resolved or t.callee)))


# ----------------------------------------------------------------------------------------------
# Origins (backward)

# dest originates from arg0 (value-preserving for identification purposes)
TRANSPARENT0 = (
    "core::clone::Clone::clone", "core::convert::AsRef::as_ref", "core::ops::deref::Deref::deref",
    "core::ops::deref::DerefMut::deref_mut", "core::borrow::Borrow::borrow",
    "core::convert::Into::into", "core::convert::From::from", "alloc::borrow::ToOwned::to_owned",
    "alloc::string::ToString::to_string", "core::option::Option::unwrap_or_default",
    "core::num::nonzero::NonZero::get", "alloc::string::String::as_str",
    "alloc::vec::Vec::as_slice", "core::ops::try_trait::Try::branch",
    "snafu::ResultExt::context", "snafu::ResultExt::with_context",
    "snafu::OptionExt::context", "snafu::OptionExt::with_context",
    "core::future::into_future::IntoFuture::into_future", "core::future::future::Future::poll",
    "core::pin::Pin::new_unchecked", "core::pin::Pin::new", "core::pin::Pin::as_mut",
    "core::option::Option::as_ref", "core::option::Option::as_mut", "core::result::Result::as_ref",
    "core::option::Option::cloned", "core::option::Option::copied",
    "core::iter::traits::collect::IntoIterator::into_iter",
    "core::iter::traits::iterator::Iterator::next",
    "core::slice::<impl [T]>::iter", "core::slice::<impl [T]>::iter_mut",
    "core::result::Result::map_err", "core::option::Option::ok_or", "core::option::Option::ok_or_else",
    "core::result::Result::unwrap", "core::result::Result::expect", "core::option::Option::unwrap",
    "core::option::Option::expect", "core::result::Result::unwrap_or_else",
    "core::option::Option::as_deref", "std::path::Path::new", "std::path::PathBuf::as_path",
    "core::convert::AsMut::as_mut", "core::hint::must_use",
    "std::path::Path::to_path_buf", "alloc::str::<impl str>::to_owned",
    "core::ops::try_trait::FromResidual::from_residual",
    "core::result::Result::ok", "alloc::slice::<impl [T]>::to_vec",
)
# dest originates from all args
TRANSPARENT_ALL = ("core::option::Option::unwrap_or", "core::result::Result::unwrap_or",
                   "core::result::Result::and")


class Origin:
    __slots__ = ("kind", "key", "fields", "extra")

    def __init__(self, kind, key, fields=(), extra=None):
        self.kind = kind      # param | upvar | call | const | agg | bin | unknown | resume
        self.key = key
        self.fields = tuple(fields)
        self.extra = extra

    def ident(self):
        return (self.kind, self.key, self.fields)

    def __hash__(self):
        return hash(self.ident())

    def __eq__(self, o):
        return isinstance(o, Origin) and self.ident() == o.ident()

    def __repr__(self):
        f = "".join("." + x for x in self.fields)
        if self.kind == "call":
            return "call[bb%d %s]%s" % (self.key[0], self.key[1], f)
        if self.kind == "param":
            return "param[_%d %s]%s" % (self.key[0], self.key[1], f)
        if self.kind == "upvar":
            return "upvar[%d %s]%s" % (self.key[0], self.key[1], f)
        if self.kind == "const":
            return "const[%s]%s" % (self.key, f)
        return "%s[%s]%s" % (self.kind, self.key, f)


class Origins:
    def __init__(self, body, transparent0=TRANSPARENT0, transparent_all=TRANSPARENT_ALL):
        self.body = body
        self.t0 = tuple(transparent0)
        self.tall = tuple(transparent_all)
        self.defs = {}
        self._is_closure = body.kind == "Closure"
        for b in body.blocks:
            if b.cleanup:
                continue
            for i, s in enumerate(b.stmts):
                if s.k == "assign":
                    self.defs.setdefault(s.place.local, []).append(("stmt", b.idx, i, s))
            t = b.term
            if t is None:
                continue
            if t.k == "call":
                self.defs.setdefault(t.dest.local, []).append(("call", b.idx, None, t))
            elif t.k == "yield":
                self.defs.setdefault(t.place.local, []).append(("resume", b.idx, None, t))

    def of_operand(self, op, fields=(), at=None):
        """origins of an operand; with `at` (block index of the use) only definitions that can
        reach that block are followed (flow-sensitive: `root` before the loop is the parsed
        shipped root only)"""
        if op.is_const:
            return {self._const(op, fields)}
        # virtual operands (arguments seen through a helper function) carry the field path the
        # helper reads from its parameter
        fields = tuple(getattr(op, "extra_fields", ())) + tuple(fields)
        if at is not None:
            out = set()
            self._at = True
            try:
                self._walk(op.place.local, _place_fields(op.place) + tuple(fields), out, set(), op.place, at)
            finally:
                self._at = False
            return out
        return self.of_place(op.place, fields)

    def set_cfg(self, cfg):
        self.cfg = cfg

    def _reaching(self, local, at):
        """definitions of `local` (entries of self.defs) that can reach block `at`"""
        ds = self.defs.get(local, [])
        whole = []
        for d in ds:
            kind, bb, idx, obj = d
            if kind == "call" and not obj.dest.proj:
                whole.append(d)
            elif kind == "stmt" and not obj.place.proj:
                whole.append(d)
        if getattr(self, "cfg", None) is None:
            return ds, True
        if len(whole) <= 1:
            # no competing definitions: still drop (partial) definitions that cannot flow to `at`
            if not hasattr(self, "_reach_cache"):
                self._reach_cache = {}
            out = []
            for d in ds:
                r = self._reach_cache.get(d[1])
                if r is None:
                    r = self.cfg.reach([d[1]])
                    self._reach_cache[d[1]] = r
                if at in r:
                    out.append(d)
            return out, True
        wb = set(d[1] for d in whole)
        out = []
        for d in ds:
            others = wb - {d[1]}
            r = self.cfg.reach([d[1]], removed_blocks=others - {at})
            if at in r:
                out.append(d)
        entry_reaches = at in self.cfg.reach((0,), removed_blocks=wb - {at}) if 0 not in wb else (0 == at)
        return out, entry_reaches

    def _const(self, op, fields=()):
        if op.fn:
            return Origin("const", "fn:" + op.fn, fields)
        return Origin("const", op.j.get("v"), fields, extra=op)

    def of_place(self, place, fields=()):
        return self.of_local(place.local, _place_fields(place) + tuple(fields), place)

    def of_local(self, local, fields=(), place=None, _seen=None):
        out = set()
        seen = _seen if _seen is not None else set()
        self._walk(local, tuple(fields), out, seen, place)
        return out

    def _walk(self, local, fields, out, seen, place=None, at=None):
        key = (local, fields, at)
        if key in seen:
            return
        seen.add(key)
        body = self.body
        defs = self.defs.get(local, [])
        entry_reaches = True
        if at is not None:
            defs, entry_reaches = self._reaching(local, at)
        # closure environment
        if self._is_closure and local == 1:
            if fields and isinstance(fields[0], tuple) and fields[0][0] == "up":
                idx = fields[0][1]
                out.add(Origin("upvar", (idx, body.upvar_name(idx) or "?"), _named(fields[1:])))
                return
        if 1 <= local <= body.argc and entry_reaches:
            nm = body.name_of_local(local) or ""
            out.add(Origin("param", (local, nm), _named(fields)))
        for (kind, bb, idx, obj) in defs:
            if kind == "resume":
                continue
            nat = bb if at is not None else None
            if kind == "call":
                t = obj
                if t.dest.proj:
                    lf = _place_fields(t.dest)
                    if not _compatible(lf, fields):
                        continue
                    rest = fields[len(lf):] if len(fields) >= len(lf) else ()
                else:
                    rest = fields
                if t.is_call_to(*self.tall):
                    for a in t.args:
                        self._operand(a, rest, out, seen, nat)
                elif t.is_call_to(*self.t0) and t.args:
                    self._operand(t.args[0], rest, out, seen, nat)
                else:
                    out.add(Origin("call", (bb, strip_generics(t.resolved or t.callee or "?")),
                                   _named(rest), extra=t))
                continue
            s = obj
            lf = _place_fields(s.place)
            if lf:
                if not _compatible(lf, fields):
                    continue
                rest = fields[len(lf):] if len(fields) >= len(lf) else ()
            else:
                rest = fields
            rv = s.rv
            if rv.k == "use" or rv.k == "cast":
                self._operand(rv.ops[0], rest, out, seen, nat)
            elif rv.k in ("ref", "copyderef", "rawptr"):
                self._walk(rv.place.local, _place_fields(rv.place) + rest, out, seen, rv.place, nat)
            elif rv.k == "agg":
                ak = rv.j["ak"]
                if ak == "adt":
                    names = rv.j["fields"]
                    nf = _first_named(rest)
                    if nf is not None and nf[1] in names:
                        i = names.index(nf[1])
                        self._operand(rv.ops[i], rest[nf[0] + 1:], out, seen, nat)
                    elif len(rv.ops) == 1 and names and names[0].isdigit():
                        # newtype / enum payload wrapper: Some(x), Ok(x)
                        self._operand(rv.ops[0], _drop_first_idx(rest), out, seen, nat)
                    elif not _named(rest):
                        out.add(Origin("agg", (bb, idx, rv.j["adt"] + "::" + rv.j["variant"]), (), extra=s))
                    # reading a named field not in this aggregate: impossible, skip
                elif ak in ("tuple", "array"):
                    ti = _first_idx(rest)
                    if ti is not None and ak == "tuple" and ti[1] < len(rv.ops):
                        self._operand(rv.ops[ti[1]], rest[ti[0] + 1:], out, seen, nat)
                    else:
                        for o in rv.ops:
                            self._operand(o, rest, out, seen, nat)
                else:
                    out.add(Origin("agg", (bb, idx, ak + ":" + rv.j.get("def", "")), (), extra=s))
            elif rv.k == "bin" or rv.k == "un":
                out.add(Origin("bin", (bb, idx, rv.j["op"]), (), extra=s))
            elif rv.k == "discr":
                out.add(Origin("discr", (bb, idx), (), extra=s))
            elif rv.k == "repeat":
                self._operand(rv.ops[0], rest, out, seen, nat)
            else:
                out.add(Origin("unknown", (bb, idx, rv.k), ()))

    def _operand(self, op, fields, out, seen, at=None):
        if op.is_const:
            out.add(self._const(op, _named(fields)))
        elif op.place is not None:
            self._walk(op.place.local, _place_fields(op.place) + tuple(fields), out, seen, op.place, at)


def _place_fields(place):
    """projection as a tuple of markers: ('n', name) named field, ('i', k) positional field,
    ('up', k) closure capture; derefs / downcasts dropped"""
    out = []
    for e in place.proj:
        if isinstance(e, dict):
            if e.get("up"):
                out.append(("up", e["f"]))
            elif "n" in e and not e["n"].isdigit():
                out.append(("n", e["n"]))
            elif "f" in e:
                out.append(("i", e["f"]))
            elif "idx" in e or "cidx" in e:
                out.append(("i", -1))
    return tuple(out)


def _named(fields):
    return tuple(f[1] for f in fields if isinstance(f, tuple) and f[0] == "n")


def _first_named(fields):
    for i, f in enumerate(fields):
        if f[0] == "n":
            return (i, f[1])
        if f[0] == "i":
            continue
    return None


def _first_idx(fields):
    for i, f in enumerate(fields):
        if f[0] == "i":
            return (i, f[1])
        return None
    return None


def _drop_first_idx(fields):
    if fields and fields[0][0] == "i":
        return fields[1:]
    return fields


def _compatible(lhs_fields, want):
    """a partial definition `L.a.b = x` is relevant when reading `L.a.b.c` or `L` / `L.a`"""
    if not want:
        return True
    n = min(len(lhs_fields), len(want))
    return tuple(lhs_fields[:n]) == tuple(want[:n])
