"""Fact model: loads the JSON written by the toughlint driver and gives a small object API.

Nothing here decides a property; it only gives names to what the compiler produced.
"""
import json
import os
import re


class Place:
    __slots__ = ("local", "proj")

    def __init__(self, j):
        self.local = j["l"]
        self.proj = j["p"]

    def is_local(self):
        return not self.proj

    def fields(self):
        """named struct fields along the projection (enum payload / deref / tuple idx dropped)"""
        out = []
        for e in self.proj:
            if isinstance(e, dict) and "n" in e and not e["n"].isdigit():
                out.append(e["n"])
        return tuple(out)

    def variant(self):
        for e in self.proj:
            if isinstance(e, dict) and "dc" in e:
                return e["dc"]
        return None

    def __repr__(self):
        s = "_%d" % self.local
        for e in self.proj:
            if e == "*":
                s = "(*%s)" % s
            elif isinstance(e, dict):
                if "dc" in e:
                    s = "(%s as %s)" % (s, e["dc"])
                elif "n" in e:
                    s = "%s.%s" % (s, e["n"])
                elif "f" in e:
                    s = "%s.%d" % (s, e["f"])
                elif "idx" in e:
                    s = "%s[_%d]" % (s, e["idx"])
                elif "cidx" in e:
                    s = "%s[%d]" % (s, e["cidx"])
            else:
                s = "%s.<%s>" % (s, e)
        return s


class Operand:
    __slots__ = ("k", "place", "j")

    def __init__(self, j):
        self.k = j["k"]
        self.j = j
        self.place = Place(j["p"]) if "p" in j else None

    @property
    def is_const(self):
        return self.k == "const"

    @property
    def fn(self):
        return self.j.get("fn")

    @property
    def const_str(self):
        """string literal value if this is a `const "..."` operand"""
        v = self.j.get("v")
        if v is None:
            return None
        m = re.match(r'^(?:const )?"(.*)"$', v, re.S)
        if m:
            return _unescape(m.group(1))
        return None

    @property
    def const_bytes(self):
        v = self.j.get("v")
        if v is None:
            return None
        m = re.match(r'^(?:const )?b"(.*)"$', v, re.S)
        if m:
            return _unescape_bytes(m.group(1))
        return None

    @property
    def const_int(self):
        b = self.j.get("bits")
        return int(b) if b is not None else None

    def __repr__(self):
        if self.k in ("copy", "move"):
            return ("move " if self.k == "move" else "") + repr(self.place)
        if self.k == "const":
            if "fn" in self.j:
                return "fn:" + self.j["fn"]
            return self.j.get("v", "const?")
        return "?" + self.k


def _unescape(s):
    # rust {:?} escaping of str
    out = []
    i = 0
    while i < len(s):
        c = s[i]
        if c == "\\" and i + 1 < len(s):
            n = s[i + 1]
            if n == "n":
                out.append("\n"); i += 2
            elif n == "r":
                out.append("\r"); i += 2
            elif n == "t":
                out.append("\t"); i += 2
            elif n == "0":
                out.append("\0"); i += 2
            elif n in "\\\"'":
                out.append(n); i += 2
            elif n == "u":
                j = s.index("}", i)
                out.append(chr(int(s[i + 3:j], 16))); i = j + 1
            elif n == "x":
                out.append(chr(int(s[i + 2:i + 4], 16))); i += 4
            else:
                out.append(c); i += 1
        else:
            out.append(c); i += 1
    return "".join(out)


def _unescape_bytes(s):
    out = bytearray()
    i = 0
    while i < len(s):
        c = s[i]
        if c == "\\" and i + 1 < len(s):
            n = s[i + 1]
            if n == "n":
                out.append(10); i += 2
            elif n == "r":
                out.append(13); i += 2
            elif n == "t":
                out.append(9); i += 2
            elif n == "0":
                out.append(0); i += 2
            elif n in "\\\"'":
                out.append(ord(n)); i += 2
            elif n == "x":
                out.append(int(s[i + 2:i + 4], 16)); i += 4
            else:
                out.append(ord(c)); i += 1
        else:
            out.extend(c.encode("utf-8")); i += 1
    return bytes(out)


class Rvalue:
    __slots__ = ("k", "j", "ops", "place")

    def __init__(self, j):
        self.k = j["k"]
        self.j = j
        self.place = Place(j["p"]) if "p" in j else None
        ops = []
        if "o" in j:
            ops.append(Operand(j["o"]))
        if "a" in j:
            ops.append(Operand(j["a"]))
            ops.append(Operand(j["b"]))
        if "ops" in j:
            ops.extend(Operand(o) for o in j["ops"])
        self.ops = ops

    def __repr__(self):
        k = self.k
        if k == "use":
            return repr(self.ops[0])
        if k == "ref":
            return ("&mut " if self.j["mut"] else "&") + repr(self.place)
        if k == "rawptr":
            return "&raw " + repr(self.place)
        if k == "cast":
            return "%r as %s [%s]" % (self.ops[0], self.j["ty"], self.j["ck"])
        if k == "bin":
            return "%s(%r, %r)" % (self.j["op"], self.ops[0], self.ops[1])
        if k == "un":
            return "%s(%r)" % (self.j["op"], self.ops[0])
        if k == "discr":
            return "discriminant(%r)" % self.place
        if k == "copyderef":
            return "deref_copy %r" % self.place
        if k == "agg":
            ak = self.j["ak"]
            if ak == "adt":
                return "%s::%s{%s}" % (self.j["adt"], self.j["variant"], ", ".join(
                    "%s: %r" % (f, o) for f, o in zip(self.j["fields"], self.ops)))
            if ak in ("closure", "coroutine", "coroutine_closure"):
                return "%s[%s](%s)" % (ak, self.j["def"], ", ".join(map(repr, self.ops)))
            return "%s(%s)" % (ak, ", ".join(map(repr, self.ops)))
        return k


class Stmt:
    __slots__ = ("k", "place", "rv", "sp", "j")

    def __init__(self, j):
        self.k = j["k"]
        self.j = j
        self.place = Place(j["p"])
        self.rv = Rvalue(j["r"]) if "r" in j else None
        self.sp = j["sp"]

    def __repr__(self):
        if self.k == "assign":
            return "%r = %r" % (self.place, self.rv)
        return "discriminant(%r) = %d" % (self.place, self.j["vi"])


class Term:
    __slots__ = ("k", "j", "sp", "func", "args", "dest", "target", "discr", "tv", "otherwise", "place")

    def __init__(self, j):
        self.k = j["k"]
        self.j = j
        self.sp = j["sp"]
        self.func = self.args = self.dest = self.target = self.discr = self.tv = self.otherwise = self.place = None
        if self.k in ("call", "tailcall"):
            self.func = Operand(j["func"])
            self.args = [Operand(a) for a in j["args"]]
            if self.k == "call":
                self.dest = Place(j["dest"])
                self.target = j["t"]
        elif self.k == "switch":
            self.discr = Operand(j["d"])
            self.tv = [(int(v), t) for v, t in j["tv"]]
            self.otherwise = j["o"]
        elif self.k in ("goto", "drop", "assert", "yield"):
            self.target = j["t"]
            if self.k == "drop":
                self.place = Place(j["p"])
            if self.k == "assert":
                self.discr = Operand(j["c"])
            if self.k == "yield":
                self.place = Place(j["ra"])

    # --- callee names ---
    @property
    def callee(self):
        """generic (declared) callee path"""
        return self.func.j.get("fn") if self.func is not None else None

    @property
    def resolved(self):
        """callee after Instance::try_resolve (impl method for trait calls), else the generic path"""
        if self.func is None:
            return None
        return self.func.j.get("res") or self.func.j.get("fn")

    @property
    def resolve_kind(self):
        return self.func.j.get("rk") if self.func is not None else None

    @property
    def names(self):
        """all spellings under which this call can be addressed by a rule table"""
        out = set()
        for p in (self.callee, self.resolved):
            if p:
                out.add(p)
                sp = strip_generics(p)
                out.add(sp)
                tm = trait_method(p)
                if tm:
                    out.add(strip_generics(tm))
        return out

    def is_call_to(self, *pats):
        if self.k != "call":
            return False
        ns = self.names
        return any(path_match(n, p) for n in ns for p in pats)

    @property
    def generic_args(self):
        return self.func.j.get("ga", []) if self.func is not None else []

    @property
    def self_adt(self):
        return self.func.j.get("self_adt") if self.func is not None else None

    def succs(self):
        k = self.k
        if k == "switch":
            out = [t for _, t in self.tv]
            out.append(self.otherwise)
            return out
        if k in ("goto", "drop", "assert", "yield"):
            return [self.target]
        if k == "call":
            return [self.target] if self.target is not None else []
        if k == "asm":
            return list(self.j.get("ts", []))
        return []

    def __repr__(self):
        k = self.k
        if k == "call":
            return "%r = %s(%s) -> bb%s" % (self.dest, self.resolved or repr(self.func),
                                             ", ".join(map(repr, self.args)), self.target)
        if k == "switch":
            return "switchInt(%r) [%s, otherwise: bb%d]" % (
                self.discr, ", ".join("%d: bb%d" % (v, t) for v, t in self.tv), self.otherwise)
        if k == "goto":
            return "goto bb%d" % self.target
        if k == "drop":
            return "drop(%r) -> bb%d" % (self.place, self.target)
        if k == "assert":
            return "assert(%r == %s) -> bb%d" % (self.discr, self.j["e"], self.target)
        if k == "yield":
            return "yield -> bb%d (resume %r)" % (self.target, self.place)
        return k


class Block:
    __slots__ = ("idx", "cleanup", "stmts", "term")

    def __init__(self, idx, j):
        self.idx = idx
        self.cleanup = j["cleanup"]
        self.stmts = [Stmt(s) for s in j["s"]]
        self.term = Term(j["t"]) if j["t"] else None


class Body:
    def __init__(self, j, crate):
        self.j = j
        self.crate = crate
        self.path = j["path"]
        self.kind = j["kind"]
        self.parent = j.get("parent", "")
        self.argc = j["argc"]
        self.span = j["span"]
        self.vis = j.get("vis")
        self.is_async = j.get("async", False)
        self.coroutine = j.get("coroutine")
        self.locals = j["locals"]
        self.vdi = [(v["n"], Place(v["p"]), v["arg"]) for v in j["vdi"]]
        self._blocks = None

    @property
    def blocks(self):
        if self._blocks is None:
            self._blocks = [Block(i, b) for i, b in enumerate(self.j["blocks"])]
        return self._blocks

    @property
    def file(self):
        return self.span["f"]

    def name_of_local(self, l):
        for n, p, _ in self.vdi:
            if p.local == l and not p.proj:
                return n
        return None

    def local_named(self, name):
        out = []
        for n, p, _ in self.vdi:
            if n == name and not p.proj:
                out.append(p.local)
        return out

    def upvar_name(self, idx):
        """name of captured variable idx of a closure/coroutine body (`_1.idx` / `(*_1).idx`)"""
        for n, p, _ in self.vdi:
            if p.local == 1:
                fs = [e for e in p.proj if isinstance(e, dict) and e.get("up")]
                if fs and fs[0]["f"] == idx:
                    return n
        return None

    def calls(self, pred=None):
        """yield (block idx, Term) for every call terminator on a non-cleanup block"""
        for b in self.blocks:
            if b.cleanup or b.term is None:
                continue
            if b.term.k == "call":
                if pred is None or pred(b.term):
                    yield b.idx, b.term

    def calls_to(self, *names, resolved=True):
        return list(self.calls(lambda t: t.is_call_to(*names)))

    def pretty(self):
        out = ["fn %s  [%s] (%s:%d)" % (self.path, self.kind, self.span["f"], self.span["l"])]
        for i, l in enumerate(self.locals):
            nm = self.name_of_local(i)
            out.append("  let _%d: %s%s" % (i, l["ty"], "  // " + nm if nm else ""))
        for n, p, a in self.vdi:
            if p.proj:
                out.append("  debug %s => %r" % (n, p))
        for b in self.blocks:
            if b.cleanup:
                continue
            out.append("bb%d:" % b.idx)
            for s in b.stmts:
                out.append("    %r;%s" % (s, _spx(s.sp)))
            out.append("    %r%s" % (b.term, _spx(b.term.sp) if b.term else ""))
        return "\n".join(out)


def _spx(sp):
    x = sp.get("x") or ""
    return "   // L%d%s" % (sp["l"], " " + x if x else "")


def strip_generics(path):
    """`HashMap::<K, V>::get` -> `HashMap::get`; keeps `<X as T>::m` qualifications"""
    if path is None:
        return None
    out = []
    i = 0
    n = len(path)
    while i < n:
        if path.startswith("::<", i) and not path.startswith("::<impl ", i):
            depth = 0
            j = i + 2
            while j < n:
                if path[j] == "<":
                    depth += 1
                elif path[j] == ">" and path[j - 1] != "-":
                    depth -= 1
                    if depth == 0:
                        break
                j += 1
            i = j + 1
            continue
        out.append(path[i])
        i += 1
    return "".join(out)


def trait_method(path):
    """`<X as a::Trait<..>>::m` -> `a::Trait::m` (None if not of that shape)"""
    if path is None or not path.startswith("<"):
        return None
    depth = 0
    for i, c in enumerate(path):
        if c == "<":
            depth += 1
        elif c == ">" and path[i - 1] != "-":
            depth -= 1
            if depth == 0:
                inner = path[1:i]
                rest = path[i + 1:]
                k = _find_as(inner)
                if k < 0:
                    return None
                tr = inner[k + 4:]
                # drop generic args of the trait
                lt = tr.find("<")
                if lt >= 0:
                    tr = tr[:lt]
                return tr + rest
    return None


def _find_as(inner):
    depth = 0
    i = 0
    while i < len(inner):
        c = inner[i]
        if c == "<":
            depth += 1
        elif c == ">" and inner[i - 1] != "-":
            depth -= 1
        elif depth == 0 and inner.startswith(" as ", i):
            return i
        i += 1
    return -1


def path_match(path, pat):
    """exact, or `pat` matches a `::`-boundary suffix of `path`; generic parameters in `<..>` of
    impl headers are kept verbatim in both."""
    if path is None:
        return False
    if path == pat:
        return True
    return path.endswith("::" + pat) or path.endswith(" " + pat) or path.endswith("<" + pat)


class Program:
    def __init__(self):
        self.crates = {}
        self.bodies = {}
        self.adts = {}
        self.impls = []
        self.fns = {}
        self.consts = {}
        self.traits = {}
        self._stripped = None

    def body(self, path):
        b = self.bodies.get(path)
        if b is None:
            if self._stripped is None:
                self._stripped = {}
                for k, v in self.bodies.items():
                    self._stripped.setdefault(strip_generics(k), v)
            b = self._stripped.get(strip_generics(path))
        return b

    def find_bodies(self, pat):
        return [b for p, b in self.bodies.items() if path_match(p, pat)]

    def bodies_in_file(self, suffix):
        return [b for b in self.bodies.values() if b.file.endswith(suffix)]


def load(directory, only=None):
    prog = Program()
    for fn in sorted(os.listdir(directory)):
        if not fn.endswith(".json") or fn == "attrs.json":
            continue
        if only and not any(fn.startswith(o) for o in only):
            continue
        with open(os.path.join(directory, fn)) as f:
            j = json.load(f)
        key = fn[:-5]
        prog.crates[key] = j
        for bj in j["bodies"]:
            b = Body(bj, key)
            k = b.path
            if k in prog.bodies:
                k = key + "|" + k
            prog.bodies[k] = b
        for a in j["adts"]:
            prog.adts.setdefault(a["path"], a)
        for im in j["impls"]:
            im["crate"] = key
            prog.impls.append(im)
        for f_ in j["fns"]:
            prog.fns.setdefault(f_["path"], f_)
        for c in j["consts"]:
            prog.consts[c["path"]] = c["val"]
        for t in j["traits"]:
            prog.traits[t["path"]] = t
    return prog
