"""python3 -m tl.mutate_all <ID> [substr]: run every mutant patch of a property; print a table."""
import glob, os, sys, re
from . import build, mutate

def main():
    prop = sys.argv[1]
    sub = sys.argv[2] if len(sys.argv) > 2 else ""
    pats = sorted(glob.glob(os.path.join(build.VERIF, "mutants", prop, "*.patch")))
    bad = 0
    for p in pats:
        if sub not in p:
            continue
        st, out = mutate.run_on_patch(prop, p)
        rules = sorted(set(re.findall(r"rule=(\S+) function=(.+?) instance=(\S+)", out)))
        print("%-55s %-12s %s" % (os.path.basename(p), st, "; ".join("%s:%s:%s" % (r, f.split("::")[-1], i) for r, f, i in rules)[:200]))
        if st != "flagged":
            bad += 1
            if st != "silent":
                print("\n".join(out.splitlines()[-15:]))
    print("%d mutants not flagged" % bad)
    return 1 if bad else 0

if __name__ == "__main__":
    sys.exit(main())
