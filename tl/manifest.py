"""Generates /verif/MANIFEST.json from the table below (python3 -m tl.manifest)."""
import json
import os

VERIF = os.path.dirname(os.path.dirname(os.path.abspath(__file__)))

TRUST = ("Trusted: rustc's type checker / MIR builder / const evaluator and Instance::try_resolve; "
         "the summaries of the ~40 std/snafu/futures functions listed in tl/flow.py; that external "
         "crates (aws-lc-rs, serde_json, tempfile, globset, percent-encoding, reqwest) behave as "
         "documented. Not analysed: #[cfg(windows)] / #[cfg(test)] code, the `fips` feature.")

# id -> (technique, claim text, design ref)
CLAIMS = {
    "C03": ("MIR control-flow must-pass-through (edge-removal reachability) + value-origin analysis "
            "over rustc MIR of load_timestamp/load_snapshot/load_targets/load_root",
            "Decides, for every path of the loaders at once, that the freshly fetched document is "
            "persisted only after the stored version of the same file was compared (<=) with it, or "
            "was absent/unparsable/unverifiable; that the snapshot-listed targets entry neither "
            "drops nor decreases; that what is persisted is the verified, returned document; who may "
            "delete stored state. A structural necessary condition of rollback protection, decided "
            "exhaustively over the CFG; not a proof of the cross-cycle behaviour.",
            "DESIGN.md §4 C03"),
    "C04": ("MIR control-flow must-pass-through + value-origin analysis over load_*/check_expired/"
            "read_target/Repository::load/Datastore::system_time, who-may-call query for the wall clock",
            "Decides on every path: Ok/persist in the four loaders only with enforcement off or after "
            "check_expired(returned document) succeeded (final root only, not stepping stones); "
            "check_expired and read_target succeed only through time<=expires / time<earliest edges "
            "with time from Datastore::system_time; earliest_expiration is the minimum over all four "
            "roles; system_time refuses a clock earlier than the recorded one and is the only reader "
            "of the wall clock. Structural necessary conditions; clock behaviour itself not decided.",
            "DESIGN.md §4 C04"),
    "C05": ("MIR must-pass-through + value-origin + file-name template analysis over load_snapshot/"
            "load_targets/load_delegations, cache.rs name builders, io.rs stream adapters, fetch.rs",
            "Decides on every path: a fetched snapshot/targets/delegated document is returned, persisted "
            "or attached only via the edge version == pinned version (pin = parent.meta.get(file), "
            "missing pin is an error); with pinned hashes the parsed bytes come from "
            "fetch_sha256(pinned sha256, pinned length|limit); VERSION-prefixed names exactly under "
            "consistent_snapshot with VERSION from the pin; adapters pass data only below the bound / "
            "on digest equality. Structural; SHA-256 and byte-level equality not decided.",
            "DESIGN.md §4 C05"),
    "C01": ("MIR dominance / must-pass-through + value-origin (flow-sensitive reaching definitions) "
            "analysis of Root::verify_role, Delegations::verify_role, Key::verify and every parse site "
            "of Signed<_> in lib.rs; who-may-construct query for Repository",
            "Decides on every path of both threshold verifiers that the counter grows only under the four "
            "guards (key id listed for the selected role entry, key in the delegating key table, "
            "Key::verify over canonical bytes of role.signed, first insertion into a set that outlives "
            "the loop, recorded only after verification) and Ok only via counter >= threshold; that "
            "Key::verify accepts exactly verify_sig(..).is_ok() with the algorithm expected per key "
            "variant; that every document parsed from shipped/fetched bytes escapes only through the Ok "
            "edge of verify_role with the right delegating document/role name. Cryptography itself is "
            "trusted, not decided.",
            "DESIGN.md §4 C01"),
    "C02": ("MIR dominance / loop-exit classification / value-origin (reaching definitions) analysis "
            "of load_root and Repository::load; file-name template analysis",
            "Decides on every path: the shipped root is self-verified before any fetch; a fetched root is "
            "adopted only after verify_role under the currently trusted root AND under its own keys, "
            "with version not lower and not equal; the walk ends normally only on fetch error / "
            "FileNotFound / equal version (any verification or parse failure returns Err); the next "
            "file requested is <trusted version + 1>.root.json; all later roles are verified against "
            "load_root's result. Structural; transport behaviour not decided.",
            "DESIGN.md §4 C02"),
    "C08": ("who-may-write query (file-system effect table over resolved callees) + MIR dominance / "
            "must-pass-through + value-origin + file-name template analysis of Repository::save_target, "
            "clean_name, TargetName::new",
            "Decides on every path of save_target: the only file-system effects are mkdir, temp file in the "
            "destination's directory, writes to it, and persist; persist only after the end of the "
            "verified read_target stream and never after an Err item, Ok only through the Ok edge of "
            "that rename (no 'already there' shortcut); all effects dominated by the "
            "containment test against the canonicalised outdir; file name only from "
            "TargetName::resolved; clean_name's refusals dominate Ok and TargetName is built only via "
            "new(); C06's read_target obligations are re-evaluated as a dependency. Normalisation "
            "arithmetic and symlinks inside outdir are not decided.",
            "DESIGN.md §4 C08"),
    "C15": ("who-may-write query (file-system effect table over resolved callees of datastore.rs) + MIR "
            "dominance/value-origin analysis of Datastore::create and of every Datastore::create call site",
            "Decides for every call path that stored trust state is only removed (Datastore::remove) or "
            "replaced by temp-file-in-the-same-directory -> successful write -> persist (atomic rename) "
            "and that only documents that passed verify_role are stored: whatever the crash point or "
            "failing write, the directory holds the old or the new complete, previously verified file; "
            "that a failing read of stored state fails the cycle (never read as 'nothing stored'); that only "
            "timestamp.json/snapshot.json are ever unlinked, only in load_root. "
            "fsync/power-loss durability is outside the claim.",
            "DESIGN.md §4 C15"),
    "C20": ("MIR must-pass-through + who-may-write (file-system effect table) + value-origin analysis of "
            "tuftool::root::Command::* , clear_sigs, add_key and tuftool::write_file",
            "Decides per subcommand, for every path: a root loaded from disk is written back only after "
            "clear_sigs on that root (7 subcommands; init writes an empty signature list); root.json is "
            "only ever replaced by temp-file-in-parent + successful write + persist; keys enter root.keys "
            "only under key.key_id(); sign persists only through its signature-count test or "
            "--ignore-threshold. That `sign` self-verifies is NOT the case today (recorded finding D12).",
            "DESIGN.md §4 C20"),
    "C09": ("who-may-call query for Transport::fetch + interprocedural value-origin (limit provenance "
            "through Repository::load -> load_* -> load_delegations and cache.rs) + loop/recursion "
            "classification over MIR CFG SCCs",
            "Decides for every fetch site that data is read only through the size-capped adapter and that "
            "the bound originates from the file's own pinned length (which must apply when present) or "
            "the configured limit of that role — never from another file's pin; that every loop containing "
            "a fetch iterates an in-memory collection or is guarded, before the fetch, by version < "
            "shipped version + max_root_updates; that the cap itself passes a chunk on only while the bytes "
            "counted so far including that chunk are <= the bound (counted before tested, every Ok chunk "
            "counted). Unbounded recursion over delegation cycles is a recorded "
            "finding (D3). Wall-clock termination is not decided.",
            "DESIGN.md §4 C09"),
    "C06": ("MIR value-origin / must-pass-through + file-name template analysis of read_target, "
            "fetch_target, target_digest_and_filename; who-may-read query for targets_base_url; shared "
            "adapter rules (io.rs) and who-may-fetch rule",
            "Decides on every path that the stream handed to the caller is fetch_sha256(targets_base_url"
            ".join(file), entry.length, entry.hashes.sha256) for the entry returned by find_target(name) "
            "on the trusted targets, that the digest-prefixed name is used exactly under consistent "
            "snapshots, that no other code reads targets_base_url, and that the adapters pass a chunk "
            "only while the running size <= bound and end the stream only on digest equality. "
            "Chunking behaviour at run time and SHA-256 are not decided.",
            "DESIGN.md §4 C06"),
    "C16": ("taint / file-name template analysis (interprocedural expansion through callee return values "
            "and parameters at all call sites) over every file-name sink; compiler-evaluated constant "
            "CHARACTERS_TO_ESCAPE; who-may-call query for URL-to-path decoding; template-language overlap",
            "Decides for every sink (metadata URL, datastore, cache output, editor output) that file names "
            "are built only from literals, version numbers and encode_filename(role name); that the "
            "escape set contains every path-significant character and '%'; that file URLs are not "
            "percent-decoded. Name-space disjointness per directory FAILS today for suitably named "
            "delegated roles (recorded finding D9, one key per directory/mode).",
            "DESIGN.md §4 C16"),
    "C07": ("MIR dominance / loop-shape / value-origin analysis of Targets::find_target, the PathSet / "
            "PathPattern / PathHashPrefix matchers, Targets::validate and its call sites",
            "Decides on every path that a delegate is searched only under the true edge of its own "
            "paths.matches_target_name(name), after the own entries, by forward iteration (first hit "
            "wins); that matching looks at the resolved name and returns true only from a matcher; that "
            "load_targets / the editor's sign succeed only through validate(), which resolves every "
            "listed target from the top after delegations were attached. Glob semantics not decided.",
            "DESIGN.md §4 C07"),
    "C14": ("control-dependence (post-dominators) + flow-sensitive value-origin analysis of load_root "
            "step 1.9; skip-edge analysis of the three loaders",
            "Decides that the stored timestamp and snapshot are both removed, with errors propagated, "
            "exactly under whole-list (in)equality tests of Root::keys(root before the walk, R) against "
            "Root::keys(root after it, R) for R in {Timestamp, Snapshot}, and that a stored document that "
            "no longer verifies is skipped rather than compared. Per-cycle structure; cross-cycle "
            "baseline is the recorded finding D7 (C03).",
            "DESIGN.md §4 C14"),
    "C12": ("structural analysis of the type graph of the signed portion: type-checked ADT/impl facts "
            "(rustc) joined with #[serde]/#[derive] attributes (syn), plus MIR value-origin rules for the "
            "hand-written Serialize impls, extra_skip_type and the canonical message of the verifiers",
            "Decides, for every type reachable from the signed portion of the four roles, that what is "
            "verified (canonical re-serialisation of the parsed object) contains exactly what was parsed: "
            "no asymmetric serde attribute, omission only for Option::is_none, a flattened catch-all at "
            "every level, role tag from the Rust type with the input's `_type` stripped, hand-written "
            "impls emit the original text; as dependencies, C11's formatter obligations (member map "
            "keyed by the un-escaped key, NFC and nothing coarser, escape table) and C01's counting-loop "
            "obligations (extra signature entries never block a valid one) are re-evaluated. Missing "
            "catch-alls in Delegations/DelegatedRole (D11) and "
            "Target.custom omitted when empty (D15) are recorded findings.",
            "DESIGN.md §4 C12"),
    "C13": ("serde attribute query over all key-table fields + MIR dominance/value-origin analysis of "
            "de::deserialize_keys, validate_and_insert_entry, Key::key_id, Decoded's Eq/Hash, tuftool add_key",
            "Decides for every path that a key enters a key table only after `keyid == key.key_id()` "
            "(whole-value equality on decoded bytes) and a no-duplicate insertion, for every input entry, "
            "for both root and delegation tables; that key_id is SHA-256 over the canonical "
            "serialisation of the key itself. SHA-256 / value-level round trips are not decided.",
            "DESIGN.md §4 C13"),
    "C17": ("carry-over analysis: MIR value-origin (including mutation through extend/insert/push) and "
            "control-dependence over the editor's loaders and builders, field enumeration from ADT facts",
            "Decides for every schema struct the editor rebuilds that each field is regenerated by design "
            "or originates — unconditionally, whenever present — from the editor field filled from the "
            "loaded repository (targets, delegations, unknown members of targets/snapshot/timestamp), "
            "that from_repo feeds all three roles, and that delegated roles are collected recursively and "
            "re-emitted — every one, unconditionally — with their Signed<_> value untouched, that the editor "
            "installed by targets() comes only from from_targets(loaded targets), that every role file of "
            "the result is written or the write fails, and (E1) that no error of an editor step is dropped. "
            "Member-by-member equality of written files is not decided.",
            "DESIGN.md §4 C17"),
    "C19": ("who-may-write query over cache.rs + MIR must-pass/value-origin rules + interprocedural "
            "file-name template comparison between what the cache writes and what the loader requests",
            "Decides that targets reach the cache only through save_target (digest prefix exactly under "
            "consistent snapshots, for every requested or every listed target, errors propagated), that the "
            "metadata file names written equal the names a client loading the copy will request, that the "
            "root chain covers 1..=trusted version when requested and a missing version is an error, that "
            "delegated roles are enumerated recursively, that cache_target succeeds only through a successful "
            "save_target, that each metadata copy is bounded by its own role's limit and flushed before Ok "
            "(D17, repaired); C08's save_target obligations are re-evaluated as a dependency. Byte identity of the re-fetched metadata and a "
            "remote changing between load and cache are not decided.",
            "DESIGN.md §4 C19"),
    "C11": ("trait-table exhaustiveness query (compiler facts incl. extern default bodies) + MIR "
            "value-origin / dominance rules over every Formatter method of CanonicalFormatter and sort_key",
            "Decides structurally that no Formatter method can bypass the object buffer, that every byte "
            "goes through the current key/value buffer, that members are ordered by the un-quoted, "
            "un-escaped key in a BTreeMap emitted in order, that floats always fail, that only the quote "
            "and the backslash are escaped with the right byte per escape class, and that string "
            "fragments are written only as their NFC normalisation. Value-level equality with the OLPC "
            "form, NFC itself and integer formatting are not decided.",
            "DESIGN.md §4 C11"),
    "C10": ("who-may-construct / who-may-write queries + MIR value-origin, dominance and must-pass rules "
            "over the editor (SignedRole, snapshot/timestamp builders, update_delegated_targets, "
            "TargetsWalker) + interprocedural file-name template comparison writer vs. client",
            "Decides that digest/length recorded for a role are those of the very buffer written, that "
            "snapshot/timestamp entries describe the roles actually written under their own file names, "
            "that written metadata names equal the names the client requests, that a non-root role below "
            "its threshold is refused, that incoming delegated metadata is stored only after verify_role "
            "and a not-lower version, that only digest-matching files are published, and that removals "
            "apply to both target sets; that pending edits survive a failed signing attempt, every authorised "
            "supplied key signs, add_key attaches every given key id, an existing destination is accepted "
            "only under consistent snapshots or after a digest check, the signer's algorithms are ones the "
            "verifier checks with, and (E1) no error of an editor/tuftool step is dropped. Recorded findings: add_role does not verify (D10); targets with "
            "URL-escaped characters are not downloadable over file:// (D14). Round-trip equality of "
            "content is not decided.",
            "DESIGN.md §4 C10"),
    "C18": ("MIR dominance / must-pass / who-may-write rules over the retry state machine of "
            "tough::http (parse_response_code, poll_streaming, poll_executing, may_retry, build_request, "
            "RetryState)",
            "Decides structurally: statuses classified file-not-found are exactly 403/404/410, 5xx is "
            "retryable, other errors fatal, and only the file-not-found class becomes "
            "TransportErrorKind::FileNotFound; a retry request is issued only for the retryable class and "
            "only under may_retry() == true, which needs tries left (the failed try counted first, "
            "current_try written only by +1 in increment) and range support or no bytes delivered yet; "
            "range support is learnt only from Accept-Ranges: bytes; Range: bytes=<next_byte>- exactly "
            "when next_byte != 0; every delivered chunk advances next_byte; the stream ends without an "
            "error item only where the response body ended. Wire-level ordering, timing "
            "and server behaviour are not decided.",
            "DESIGN.md §4 C18"),
}

NOT_YET = {}


def main():
    props = [json.loads(l) for l in open(os.path.join(VERIF, "properties.jsonl"))]
    checks = []
    na = []
    for p in props:
        pid = p["id"]
        if pid in CLAIMS:
            tech, text, ref = CLAIMS[pid]
            checks.append({
                "property_id": pid,
                "quick_cmd": "./check %s --tier quick" % pid,
                "thorough_cmd": "./check %s --tier thorough" % pid,
                "evidence_file": "/verif/evidence/%s.json" % pid,
                "replay_cmd_template": "./check %s --replay {path}" % pid,
                "engine": "toughlint",
                "level_claimed": {"category": "other", "text": text, "design_ref": ref},
                "level_note": TRUST,
                "technique": "static analysis: " + tech,
            })
        else:
            na.append({"property_id": pid, "reason": NOT_YET.get(
                pid, "static rules for this property are not built yet (see DESIGN.md §4 for the plan); not claimed")})
    m = {
        "version": 1,
        "setup_cmd": "./setup.sh",
        "hooks": {
            "guard": "tough_verif",
            "enable": "none needed: the checks are static (rustc_private driver under cargo +nightly check); no source hooks exist",
            "baseline_off_cmd": "cd /repo && cargo test --workspace --no-fail-fast --offline",
            "source_commits": [],
            "add_only": True,
        },
        "engines": [
            {"name": "toughlint", "path": "/verif/driver",
             "serves_properties": sorted(CLAIMS),
             "kind_free_text": "rustc_private driver (nightly) dumping MIR/ADT/impl/const facts of the "
                               "workspace crates as RUSTC_WORKSPACE_WRAPPER; rules in /verif/tl (python3, stdlib only)"},
            {"name": "attrscan", "path": "/verif/attrscan", "serves_properties": [],
             "kind_free_text": "syn-based extractor of #[serde(..)]/#[derive(..)] attributes"},
        ],
        "checks": checks,
        "not_applicable": na,
        "notes": "Static analysis only. Every check regenerates facts from /repo's working tree "
                 "(hash-keyed cache under /verif/.work) and evaluates its rules; see DESIGN.md.",
    }
    with open(os.path.join(VERIF, "MANIFEST.json"), "w") as f:
        json.dump(m, f, indent=1)
    print("MANIFEST.json: %d checks, %d not_applicable" % (len(checks), len(na)))


if __name__ == "__main__":
    main()
