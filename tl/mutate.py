"""Self-validation: run a property's rules on a scratch copy of /repo with one patch applied.

This is the checker run on variant *sources* (the variant must still type-check under the
driver); tough is never executed.  Scratch copies live under /tmp and are removed at once.
"""
import os
import shutil
import subprocess
import sys
import tempfile

from . import build


def scratch_copy(repo=None):
    repo = repo or build.REPO
    d = tempfile.mkdtemp(prefix="tl-mut-")
    subprocess.check_call(["rsync", "-a", "--exclude", "/target", "--exclude", "/.git",
                           repo + "/", d + "/"])
    return d


def apply_patch(d, patch):
    r = subprocess.run(["patch", "-p1", "--no-backup-if-mismatch", "-s", "-i", os.path.abspath(patch)],
                       cwd=d, stdout=subprocess.PIPE, stderr=subprocess.STDOUT, text=True)
    return r.returncode == 0, r.stdout


def run_on_patch(prop, patch, keep=False):
    """returns (status, output) with status in compiled-and-flagged / compiled-and-silent / build-failed / patch-failed"""
    d = scratch_copy()
    try:
        ok, out = apply_patch(d, patch)
        if not ok:
            return "patch-failed", out
        env = dict(os.environ)
        env["TOUGH_REPO"] = d
        r = subprocess.run([sys.executable, os.path.join(build.VERIF, "check"), prop, "--repo", d, "--no-evidence"],
                           stdout=subprocess.PIPE, stderr=subprocess.STDOUT, text=True, env=env)
        out = r.stdout
        if "BUILD-FAILED" in out:
            return "build-failed", out
        if r.returncode == 0:
            return "silent", out
        return "flagged", out
    finally:
        if not keep:
            shutil.rmtree(d, ignore_errors=True)


if __name__ == "__main__":
    st, out = run_on_patch(sys.argv[1], sys.argv[2])
    print(out)
    print("==>", st)
