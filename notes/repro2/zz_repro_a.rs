// Throw-away reproduction for "Suspect A": in a NON-consistent-snapshot repository the client
// stores a delegated role's metadata in its datastore as `<encoded role name>.json`. A delegated
// role named `latest_known_time` (resp. `timestamp`) therefore lands on the very file that the
// client uses as its clock guard (resp. as its trusted timestamp for rollback protection).

use crate::test_utils::{days, dir_url, test_data};
use aws_lc_rs::rand::SystemRandom;
use bytes::Bytes;
use chrono::{DateTime, Utc};
use futures_core::Stream;
use std::collections::HashMap;
use std::num::NonZeroU64;
use std::path::{Path, PathBuf};
use std::pin::Pin;
use std::sync::atomic::{AtomicI64, Ordering};
use std::sync::{Arc, Mutex};
use tempfile::TempDir;
use tough::editor::signed::SignedRole;
use tough::editor::RepositoryEditor;
use tough::key_source::{KeySource, LocalKeySource};
use tough::schema::{
    Hashes, KeyHolder, Metafile, PathPattern, PathSet, Root, Signed, Timestamp,
};
use tough::{FilesystemTransport, Repository, RepositoryLoader, Transport, TransportError};
use url::Url;

mod test_utils;

// ---------------------------------------------------------------------------------------------
// Simulated wall clock. The test binary's own `clock_gettime` definition is what Rust's std (and
// therefore chrono's `Utc::now()`, which the library uses) links against; it forwards to the raw
// syscall and adds CLOCK_OFFSET_SECS to CLOCK_REALTIME only. The library code is untouched.
// ---------------------------------------------------------------------------------------------
static CLOCK_OFFSET_SECS: AtomicI64 = AtomicI64::new(0);

#[repr(C)]
pub struct KTimespec {
    tv_sec: i64,
    tv_nsec: i64,
}

extern "C" {
    fn syscall(num: i64, ...) -> i64;
}

#[cfg(all(target_os = "linux", target_arch = "x86_64"))]
#[no_mangle]
pub unsafe extern "C" fn clock_gettime(clock_id: i32, tp: *mut KTimespec) -> i32 {
    const SYS_CLOCK_GETTIME: i64 = 228;
    const CLOCK_REALTIME: i32 = 0;
    let rc = syscall(SYS_CLOCK_GETTIME, clock_id as i64, tp);
    if rc == 0 && clock_id == CLOCK_REALTIME {
        (*tp).tv_sec += CLOCK_OFFSET_SECS.load(Ordering::SeqCst);
    }
    rc as i32
}

fn set_clock_offset(secs: i64) {
    CLOCK_OFFSET_SECS.store(secs, Ordering::SeqCst);
}

// ---------------------------------------------------------------------------------------------

fn keys() -> Vec<Box<dyn KeySource>> {
    vec![Box::new(LocalKeySource {
        path: test_data().join("snakeoil.pem"),
    })]
}

fn role_keys() -> Vec<Box<dyn KeySource>> {
    vec![Box::new(LocalKeySource {
        path: test_data().join("targetskey"),
    })]
}

/// simple-rsa/root.json with `consistent_snapshot: false`, re-signed with snakeoil.pem.
async fn make_root(dir: &Path) -> (PathBuf, Root) {
    let bytes = std::fs::read(test_data().join("simple-rsa").join("root.json")).unwrap();
    let parsed: Signed<Root> = serde_json::from_slice(&bytes).unwrap();
    let mut root = parsed.signed;
    root.consistent_snapshot = false;
    let signed = SignedRole::new(
        root.clone(),
        &KeyHolder::Root(root.clone()),
        &keys(),
        &SystemRandom::new(),
    )
    .await
    .unwrap();
    let path = dir.join("root.json");
    std::fs::write(&path, signed.buffer()).unwrap();
    (path, root)
}

fn ls(dir: &Path) -> Vec<String> {
    let mut v: Vec<String> = std::fs::read_dir(dir)
        .unwrap()
        .map(|e| e.unwrap().file_name().to_string_lossy().into_owned())
        .collect();
    v.sort();
    v
}

fn head(path: &Path, n: usize) -> String {
    match std::fs::read(path) {
        Ok(b) => String::from_utf8_lossy(&b[..b.len().min(n)]).into_owned(),
        Err(e) => format!("<cannot read: {e}>"),
    }
}

/// What kind of document is stored in that datastore file?
fn classify(path: &Path) -> String {
    let Ok(bytes) = std::fs::read(path) else {
        return "<missing>".into();
    };
    if let Ok(t) = serde_json::from_slice::<DateTime<Utc>>(&bytes) {
        return format!("RFC3339 time string ({t})");
    }
    if let Ok(t) = serde_json::from_slice::<Signed<Timestamp>>(&bytes) {
        return format!("signed TIMESTAMP document, version {}", t.signed.version);
    }
    match serde_json::from_slice::<serde_json::Value>(&bytes) {
        Ok(v) => format!(
            "JSON document with signed._type = {} , signed.version = {} ({} bytes); parses as DateTime: NO, parses as Signed<Timestamp>: NO",
            v["signed"]["_type"], v["signed"]["version"], bytes.len()
        ),
        Err(_) => "<not JSON>".into(),
    }
}

/// Builds a non-consistent-snapshot repository whose top-level targets role delegates to a role
/// called `role_name`, and writes its metadata to `<dir>/metadata`.
async fn build_repo(root_path: &Path, dir: &Path, role_name: &str) -> PathBuf {
    let mut editor = RepositoryEditor::new(root_path).await.unwrap();
    editor
        .targets_expires(Utc::now() + days(13))
        .unwrap()
        .targets_version(NonZeroU64::new(3).unwrap())
        .unwrap()
        .snapshot_expires(Utc::now() + days(21))
        .snapshot_version(NonZeroU64::new(5).unwrap())
        .timestamp_expires(Utc::now() + days(3))
        .timestamp_version(NonZeroU64::new(20).unwrap());
    editor
        .delegate_role(
            role_name,
            &role_keys(),
            PathSet::Paths(vec![PathPattern::new("delegated/*").unwrap()]),
            NonZeroU64::new(1).unwrap(),
            Utc::now() + days(21),
            NonZeroU64::new(1).unwrap(),
        )
        .await
        .unwrap();
    let signed = editor.sign(&keys()).await.unwrap();
    let metadata_dir = dir.join("metadata");
    signed.write(&metadata_dir).await.unwrap();
    std::fs::create_dir_all(dir.join("targets")).unwrap();
    metadata_dir
}

async fn load(
    root_path: &Path,
    repo_dir: &Path,
    datastore: &Path,
) -> tough::error::Result<Repository> {
    RepositoryLoader::new(
        &std::fs::read(root_path).unwrap(),
        dir_url(repo_dir.join("metadata")),
        dir_url(repo_dir.join("targets")),
    )
    .transport(FilesystemTransport)
    .datastore(datastore)
    .load()
    .await
}

// =============================================================================================
// Variant 1: delegated role named `latest_known_time`  (plain FilesystemTransport)
// =============================================================================================

/// One experiment: cycle 1 while the wall clock is 2 h AHEAD, then the clock steps BACK to real
/// time and cycle 2 runs against the same repository with the same datastore.
/// Returns the result of cycle 2.
async fn clock_guard_experiment(role_name: &str) -> tough::error::Result<Repository> {
    println!("---- delegated role name = {role_name:?} ----");
    let work = TempDir::new().unwrap();
    let (root_path, _root) = make_root(work.path()).await;
    let repo_dir = work.path().join("repo");
    let metadata_dir = build_repo(&root_path, &repo_dir, role_name).await;
    println!("served metadata dir: {:?}", ls(&metadata_dir));
    let datastore = work.path().join("datastore");
    std::fs::create_dir_all(&datastore).unwrap();

    set_clock_offset(2 * 3600);
    println!("cycle 1: wall clock (simulated, +2h) = {}", Utc::now());
    let repo = load(&root_path, &repo_dir, &datastore).await.unwrap();
    println!(
        "cycle 1: load() OK, delegated role loaded = {}",
        repo.delegated_role(role_name).is_some()
    );
    drop(repo);
    println!("datastore after cycle 1: {:?}", ls(&datastore));
    let lkt = datastore.join("latest_known_time.json");
    println!(
        "latest_known_time.json, first 200 bytes: {}",
        head(&lkt, 200)
    );
    println!("latest_known_time.json is: {}", classify(&lkt));

    set_clock_offset(0);
    println!("cycle 2: wall clock stepped BACK to {}", Utc::now());
    let res = load(&root_path, &repo_dir, &datastore).await;
    match &res {
        Ok(_) => println!("cycle 2: load() -> OK (backward clock step NOT detected)"),
        Err(e) => println!("cycle 2: load() -> ERROR: {e}"),
    }
    println!(
        "latest_known_time.json after cycle 2 is: {}",
        classify(&lkt)
    );
    res
}

#[tokio::test]
async fn repro_a1_latest_known_time() {
    println!("==== Suspect A, variant `latest_known_time` ====");

    // Control: ordinary role name -> the clock guard fires.
    let control = clock_guard_experiment("role1").await;
    match control {
        Err(tough::error::Error::SystemTimeSteppedBackward { .. }) => {
            println!("CONTROL: clock guard enforced (SystemTimeSteppedBackward)")
        }
        other => panic!(
            "control did not behave as expected (clock simulation broken?): {:?}",
            other.map(|_| "Ok(repo)")
        ),
    }

    // Suspect: role named `latest_known_time`.
    let suspect = clock_guard_experiment("latest_known_time").await;
    assert!(
        suspect.is_ok(),
        "REFUTED: clock guard still enforced: {:?}",
        suspect.err()
    );
    println!("SUSPECT: clock guard NOT enforced in the cycle that follows (file had been overwritten by the delegated role's metadata)");
}

// =============================================================================================
// Variant 2: delegated role named `timestamp`
// =============================================================================================

/// A mirror that answers the FIRST request for `timestamp.json` in an update cycle with the
/// top-level timestamp (version selected by `top_version`) and the SECOND one (the client asking
/// for the delegated role called "timestamp") with the delegated role's metadata. Everything else
/// is passed straight to the real FilesystemTransport.
#[derive(Debug, Clone)]
struct Mirror {
    state: Arc<Mutex<MirrorState>>,
}

#[derive(Debug)]
struct MirrorState {
    top_version: u64,
    timestamp_fetches: u32,
}

impl Mirror {
    fn new_cycle(&self, top_version: u64) {
        let mut s = self.state.lock().unwrap();
        s.top_version = top_version;
        s.timestamp_fetches = 0;
    }
}

#[tough::async_trait]
impl Transport for Mirror {
    async fn fetch(
        &self,
        url: Url,
    ) -> Result<Pin<Box<dyn Stream<Item = Result<Bytes, TransportError>> + Send>>, TransportError>
    {
        let mut real = url.clone();
        if url.path().ends_with("/timestamp.json") {
            let mut s = self.state.lock().unwrap();
            s.timestamp_fetches += 1;
            let name = if s.timestamp_fetches == 1 {
                format!("timestamp.top.v{}.json", s.top_version)
            } else {
                "timestamp.role.json".to_owned()
            };
            real = url.join(&name).unwrap();
            println!(
                "    [mirror] request #{} for timestamp.json -> serving {name}",
                s.timestamp_fetches
            );
        }
        FilesystemTransport.fetch(real).await
    }
}

/// Signs a top-level timestamp (given version) for the snapshot.json found in `metadata_dir`.
async fn write_top_timestamp(root: &Root, metadata_dir: &Path, version: u64) {
    let snapshot_bytes = std::fs::read(metadata_dir.join("snapshot.json")).unwrap();
    let snapshot: serde_json::Value = serde_json::from_slice(&snapshot_bytes).unwrap();
    let snapshot_version = snapshot["signed"]["version"].as_u64().unwrap();
    let sha = aws_lc_rs::digest::digest(&aws_lc_rs::digest::SHA256, &snapshot_bytes);
    let mut ts = Timestamp::new(
        "1.0.0".to_owned(),
        NonZeroU64::new(version).unwrap(),
        Utc::now() + days(3),
    );
    ts.meta.insert(
        "snapshot.json".to_owned(),
        Metafile {
            length: Some(snapshot_bytes.len() as u64),
            hashes: Some(Hashes {
                sha256: sha.as_ref().to_vec().into(),
                _extra: HashMap::new(),
            }),
            version: NonZeroU64::new(snapshot_version).unwrap(),
            _extra: HashMap::new(),
        },
    );
    let signed = SignedRole::new(
        ts,
        &KeyHolder::Root(root.clone()),
        &keys(),
        &SystemRandom::new(),
    )
    .await
    .unwrap();
    std::fs::write(
        metadata_dir.join(format!("timestamp.top.v{version}.json")),
        signed.buffer(),
    )
    .unwrap();
}

/// Cycle 1 sees top-level timestamp v20, cycle 2 (same datastore) is offered the OLDER v10.
/// Returns the result of cycle 2.
async fn timestamp_rollback_experiment(role_name: &str) -> tough::error::Result<Repository> {
    println!("---- delegated role name = {role_name:?} ----");
    let work = TempDir::new().unwrap();
    let (root_path, root) = make_root(work.path()).await;
    let repo_dir = work.path().join("repo");
    let metadata_dir = build_repo(&root_path, &repo_dir, role_name).await;
    println!("metadata dir as written by the editor: {:?}", ls(&metadata_dir));
    println!(
        "  editor's timestamp.json is: {}",
        classify(&metadata_dir.join("timestamp.json"))
    );

    if role_name == "timestamp" {
        // For the record: what an honest static file server (plain FilesystemTransport) yields.
        let ds = TempDir::new().unwrap();
        match load(&root_path, &repo_dir, ds.path()).await {
            Ok(_) => println!("  plain FilesystemTransport load of the editor output -> OK"),
            Err(e) => println!(
                "  plain FilesystemTransport load of the editor output -> ERROR: {:.200}",
                e.to_string()
            ),
        }
        // the editor wrote the delegated role over the top-level timestamp.json
        std::fs::rename(
            metadata_dir.join("timestamp.json"),
            metadata_dir.join("timestamp.role.json"),
        )
        .unwrap();
    } else {
        std::fs::remove_file(metadata_dir.join("timestamp.json")).unwrap();
    }
    write_top_timestamp(&root, &metadata_dir, 20).await;
    write_top_timestamp(&root, &metadata_dir, 10).await;
    println!("metadata dir behind the mirror: {:?}", ls(&metadata_dir));

    let datastore = work.path().join("datastore");
    std::fs::create_dir_all(&datastore).unwrap();
    let mirror = Mirror {
        state: Arc::new(Mutex::new(MirrorState {
            top_version: 20,
            timestamp_fetches: 0,
        })),
    };
    let root_bytes = std::fs::read(&root_path).unwrap();

    println!("cycle 1: mirror offers top-level timestamp v20");
    mirror.new_cycle(20);
    let repo = RepositoryLoader::new(
        &root_bytes,
        dir_url(&metadata_dir),
        dir_url(repo_dir.join("targets")),
    )
    .transport(mirror.clone())
    .datastore(&datastore)
    .load()
    .await
    .unwrap();
    println!(
        "cycle 1: load() OK, trusted timestamp version = {}, delegated role loaded = {}",
        repo.timestamp().signed.version,
        repo.delegated_role(role_name).is_some()
    );
    assert_eq!(repo.timestamp().signed.version.get(), 20);
    drop(repo);
    println!("datastore after cycle 1: {:?}", ls(&datastore));
    let ts = datastore.join("timestamp.json");
    println!("datastore timestamp.json, first 200 bytes: {}", head(&ts, 200));
    println!("datastore timestamp.json is: {}", classify(&ts));

    println!("cycle 2: mirror replays the OLDER top-level timestamp v10");
    mirror.new_cycle(10);
    let res = RepositoryLoader::new(
        &root_bytes,
        dir_url(&metadata_dir),
        dir_url(repo_dir.join("targets")),
    )
    .transport(mirror.clone())
    .datastore(&datastore)
    .load()
    .await;
    match &res {
        Ok(r) => println!(
            "cycle 2: load() -> OK, now trusting timestamp version {} (rollback 20 -> 10 ACCEPTED)",
            r.timestamp().signed.version
        ),
        Err(e) => println!("cycle 2: load() -> ERROR: {e}"),
    }
    res
}

#[tokio::test]
async fn repro_a2_timestamp() {
    println!("==== Suspect A, variant `timestamp` ====");

    let control = timestamp_rollback_experiment("role1").await;
    match control {
        Err(tough::error::Error::OlderMetadata {
            current_version,
            new_version,
            ..
        }) => println!(
            "CONTROL: timestamp rollback refused (OlderMetadata {current_version} -> {new_version})"
        ),
        other => panic!(
            "control did not behave as expected: {:?}",
            other.map(|_| "Ok(repo)")
        ),
    }

    let suspect = timestamp_rollback_experiment("timestamp").await;
    let repo = match suspect {
        Ok(r) => r,
        Err(e) => panic!("REFUTED: rollback still refused: {e}"),
    };
    assert_eq!(repo.timestamp().signed.version.get(), 10);
    println!("SUSPECT: timestamp rollback 20 -> 10 accepted because the stored timestamp.json had been overwritten by the delegated role's metadata");
}
