// Throw-away reproduction for "Suspect C": target names containing a space cannot be fetched
// over the file:// (FilesystemTransport) transport because the URL path keeps `%20` and the
// filesystem transport does not percent-decode it.

use crate::test_utils::{days, dir_url, read_to_end, test_data};
use aws_lc_rs::rand::SystemRandom;
use chrono::Utc;
use std::num::NonZeroU64;
use std::path::{Path, PathBuf};
use tempfile::TempDir;
use tough::editor::signed::{PathExists, SignedRole};
use tough::editor::RepositoryEditor;
use tough::key_source::{KeySource, LocalKeySource};
use tough::schema::{KeyHolder, Root, Signed};
use tough::{FilesystemTransport, Prefix, RepositoryLoader, TargetName, TransportErrorKind};

mod test_utils;

fn keys() -> Vec<Box<dyn KeySource>> {
    vec![Box::new(LocalKeySource {
        path: test_data().join("snakeoil.pem"),
    })]
}

/// Writes a copy of simple-rsa/root.json with the given `consistent_snapshot` value, re-signed
/// with snakeoil.pem. Returns the path of the new root.json.
async fn make_root(dir: &Path, consistent_snapshot: bool) -> PathBuf {
    let bytes = std::fs::read(test_data().join("simple-rsa").join("root.json")).unwrap();
    let parsed: Signed<Root> = serde_json::from_slice(&bytes).unwrap();
    let mut root = parsed.signed;
    root.consistent_snapshot = consistent_snapshot;
    let signed = SignedRole::new(
        root.clone(),
        &KeyHolder::Root(root),
        &keys(),
        &SystemRandom::new(),
    )
    .await
    .unwrap();
    let path = dir.join("root.json");
    std::fs::write(&path, signed.buffer()).unwrap();
    path
}

fn ls(dir: &Path) -> Vec<String> {
    let mut v: Vec<String> = std::fs::read_dir(dir)
        .unwrap()
        .map(|e| e.unwrap().file_name().to_string_lossy().into_owned())
        .collect();
    v.sort();
    v
}

async fn run(consistent_snapshot: bool) {
    println!("==== Suspect C, consistent_snapshot = {consistent_snapshot} ====");
    let work = TempDir::new().unwrap();
    let root_path = make_root(work.path(), consistent_snapshot).await;

    // input targets
    let indir = work.path().join("in");
    std::fs::create_dir_all(&indir).unwrap();
    std::fs::write(indir.join("release notes.txt"), b"notes with a space\n").unwrap();
    std::fs::write(indir.join("plain.txt"), b"plain target\n").unwrap();

    let mut editor = RepositoryEditor::new(&root_path).await.unwrap();
    editor
        .targets_expires(Utc::now() + days(13))
        .unwrap()
        .targets_version(NonZeroU64::new(1).unwrap())
        .unwrap()
        .snapshot_expires(Utc::now() + days(21))
        .snapshot_version(NonZeroU64::new(1).unwrap())
        .timestamp_expires(Utc::now() + days(3))
        .timestamp_version(NonZeroU64::new(1).unwrap())
        .add_target_paths(vec![indir.join("release notes.txt"), indir.join("plain.txt")])
        .await
        .unwrap();
    let signed = editor.sign(&keys()).await.unwrap();

    let metadata_dir = work.path().join("metadata");
    let targets_dir = work.path().join("targets");
    signed.write(&metadata_dir).await.unwrap();
    signed
        .copy_targets(&indir, &targets_dir, PathExists::Skip)
        .await
        .unwrap();
    println!("metadata dir: {:?}", ls(&metadata_dir));
    println!("targets dir : {:?}", ls(&targets_dir));

    let datastore = work.path().join("datastore");
    std::fs::create_dir_all(&datastore).unwrap();
    let repo = RepositoryLoader::new(
        &std::fs::read(&root_path).unwrap(),
        dir_url(&metadata_dir),
        dir_url(&targets_dir),
    )
    .transport(FilesystemTransport)
    .datastore(&datastore)
    .load()
    .await
    .unwrap();
    println!(
        "load() OK; targets listed in targets.json: {:?}",
        repo.targets()
            .signed
            .targets
            .keys()
            .map(|k| k.raw().to_owned())
            .collect::<Vec<_>>()
    );

    // Control: a name without a space works.
    let plain = TargetName::new("plain.txt").unwrap();
    let data = read_to_end(repo.read_target(&plain).await.unwrap().unwrap()).await;
    println!(
        "CONTROL read_target(\"plain.txt\") -> OK, {} bytes: {:?}",
        data.len(),
        String::from_utf8_lossy(&data)
    );
    assert_eq!(data, b"plain target\n");
    let outdir = work.path().join("out");
    std::fs::create_dir_all(&outdir).unwrap();
    repo.save_target(&plain, &outdir, Prefix::None)
        .await
        .unwrap();
    println!("CONTROL save_target(\"plain.txt\") -> OK, outdir: {:?}", ls(&outdir));

    // Suspect: the name with a space.
    let spaced = TargetName::new("release notes.txt").unwrap();
    let read_err = match repo.read_target(&spaced).await {
        Err(e) => e,
        Ok(None) => panic!("target with a space not found in metadata at all"),
        Ok(Some(stream)) => {
            use tough::IntoVec;
            match stream.into_vec().await {
                Ok(d) => panic!(
                    "REFUTED: read_target(\"release notes.txt\") succeeded with {} bytes",
                    d.len()
                ),
                Err(e) => e,
            }
        }
    };
    println!("SUSPECT read_target(\"release notes.txt\") -> ERROR: {read_err}");
    println!("SUSPECT read_target error (debug, first 300 chars): {:.300}", format!("{read_err:?}"));
    match &read_err {
        tough::error::Error::Transport { url, source, .. } => {
            println!(
                "  error url = {url}, transport kind = {:?}, url contains %20 = {}",
                source.kind(),
                url.as_str().contains("%20")
            );
            assert_eq!(source.kind(), TransportErrorKind::FileNotFound);
            assert!(url.as_str().contains("release%20notes.txt"));
        }
        other => panic!("unexpected error kind: {:?}", other),
    }

    let save_res = repo.save_target(&spaced, &outdir, Prefix::None).await;
    match &save_res {
        Ok(()) => println!("SUSPECT save_target(\"release notes.txt\") -> OK (unexpected)"),
        Err(e) => println!("SUSPECT save_target(\"release notes.txt\") -> ERROR: {e}"),
    }
    println!("outdir after save attempts: {:?}", ls(&outdir));
    assert!(save_res.is_err());
    assert!(!outdir.join("release notes.txt").exists());

    // Show that the file really is there on disk under its literal (space) name.
    let on_disk = ls(&targets_dir)
        .into_iter()
        .find(|n| n.ends_with("release notes.txt"))
        .unwrap();
    println!(
        "file on disk that should have been served: {:?} (exists = {})",
        on_disk,
        targets_dir.join(&on_disk).exists()
    );
}

#[tokio::test]
async fn repro_c_consistent_snapshot() {
    run(true).await;
}

#[tokio::test]
async fn repro_c_non_consistent_snapshot() {
    run(false).await;
}
