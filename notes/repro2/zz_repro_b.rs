// Throw-away reproduction for "Suspect B": the length / sha256 that snapshot.json pins for a
// DELEGATED role file (`<role>.json`) is ignored by the client; only `max_targets_size` applies.
// The same manipulation on the top-level targets.json is refused.

use crate::test_utils::{days, dir_url, test_data};
use aws_lc_rs::rand::SystemRandom;
use chrono::Utc;
use serde::Serialize;
use std::num::NonZeroU64;
use std::path::{Path, PathBuf};
use tempfile::TempDir;
use tough::editor::signed::SignedRole;
use tough::editor::RepositoryEditor;
use tough::key_source::{KeySource, LocalKeySource};
use tough::schema::{KeyHolder, PathPattern, PathSet, Root, Signed};
use tough::{FilesystemTransport, Repository, RepositoryLoader};

mod test_utils;

fn keys() -> Vec<Box<dyn KeySource>> {
    vec![Box::new(LocalKeySource {
        path: test_data().join("snakeoil.pem"),
    })]
}

fn role1_keys() -> Vec<Box<dyn KeySource>> {
    vec![Box::new(LocalKeySource {
        path: test_data().join("targetskey"),
    })]
}

async fn make_root(dir: &Path, consistent_snapshot: bool) -> PathBuf {
    let bytes = std::fs::read(test_data().join("simple-rsa").join("root.json")).unwrap();
    let parsed: Signed<Root> = serde_json::from_slice(&bytes).unwrap();
    let mut root = parsed.signed;
    root.consistent_snapshot = consistent_snapshot;
    let signed = SignedRole::new(
        root.clone(),
        &KeyHolder::Root(root),
        &keys(),
        &SystemRandom::new(),
    )
    .await
    .unwrap();
    let path = dir.join("root.json");
    std::fs::write(&path, signed.buffer()).unwrap();
    path
}

fn ls(dir: &Path) -> Vec<String> {
    let mut v: Vec<String> = std::fs::read_dir(dir)
        .unwrap()
        .map(|e| e.unwrap().file_name().to_string_lossy().into_owned())
        .collect();
    v.sort();
    v
}

fn sha256_hex(data: &[u8]) -> String {
    hex::encode(aws_lc_rs::digest::digest(&aws_lc_rs::digest::SHA256, data))
}

/// Same JSON document (same `signed`, same `signatures`), re-serialised with a very wide
/// indentation and trailing whitespace so that it is at least `min_len` bytes long.
fn bloat(original: &[u8], min_len: usize) -> Vec<u8> {
    let value: serde_json::Value = serde_json::from_slice(original).unwrap();
    let mut out = Vec::new();
    let indent = [b' '; 64];
    let fmt = serde_json::ser::PrettyFormatter::with_indent(&indent);
    let mut ser = serde_json::Serializer::with_formatter(&mut out, fmt);
    value.serialize(&mut ser).unwrap();
    while out.len() < min_len {
        out.extend_from_slice(b"          \n");
    }
    out
}

/// Same JSON document, compact serialisation: SHORTER than the original, different digest.
fn compact(original: &[u8]) -> Vec<u8> {
    let value: serde_json::Value = serde_json::from_slice(original).unwrap();
    serde_json::to_vec(&value).unwrap()
}

async fn load(root_path: &Path, metadata_dir: &Path, targets_dir: &Path) -> tough::error::Result<Repository> {
    // fresh, explicit datastore for every update cycle
    let ds = TempDir::new().unwrap();
    RepositoryLoader::new(
        &std::fs::read(root_path).unwrap(),
        dir_url(metadata_dir),
        dir_url(targets_dir),
    )
    .transport(FilesystemTransport)
    .datastore(ds.path())
    .load()
    .await
}

async fn run(consistent_snapshot: bool) {
    println!("==== Suspect B, consistent_snapshot = {consistent_snapshot} ====");
    let work = TempDir::new().unwrap();
    let root_path = make_root(work.path(), consistent_snapshot).await;

    let mut editor = RepositoryEditor::new(&root_path).await.unwrap();
    editor
        .targets_expires(Utc::now() + days(13))
        .unwrap()
        .targets_version(NonZeroU64::new(3).unwrap())
        .unwrap()
        .snapshot_expires(Utc::now() + days(21))
        .snapshot_version(NonZeroU64::new(5).unwrap())
        .timestamp_expires(Utc::now() + days(3))
        .timestamp_version(NonZeroU64::new(7).unwrap())
        .add_target_paths(vec![test_data()
            .join("tuf-reference-impl")
            .join("targets")
            .join("file3.txt")])
        .await
        .unwrap();
    editor
        .delegate_role(
            "role1",
            &role1_keys(),
            PathSet::Paths(vec![PathPattern::new("delegated/*").unwrap()]),
            NonZeroU64::new(1).unwrap(),
            Utc::now() + days(21),
            NonZeroU64::new(1).unwrap(),
        )
        .await
        .unwrap();
    let signed = editor.sign(&keys()).await.unwrap();

    let metadata_dir = work.path().join("metadata");
    let targets_dir = work.path().join("targets");
    std::fs::create_dir_all(&targets_dir).unwrap();
    signed.write(&metadata_dir).await.unwrap();
    println!("metadata dir: {:?}", ls(&metadata_dir));

    let (role_file, targets_file, snapshot_file) = if consistent_snapshot {
        ("1.role1.json", "3.targets.json", "5.snapshot.json")
    } else {
        ("role1.json", "targets.json", "snapshot.json")
    };
    let role_path = metadata_dir.join(role_file);
    let targets_path = metadata_dir.join(targets_file);

    // What does snapshot.json pin?
    let snapshot: serde_json::Value =
        serde_json::from_slice(&std::fs::read(metadata_dir.join(snapshot_file)).unwrap()).unwrap();
    let meta = &snapshot["signed"]["meta"];
    println!("snapshot.json meta[\"role1.json\"]   = {}", meta["role1.json"]);
    println!("snapshot.json meta[\"targets.json\"] = {}", meta["targets.json"]);
    let pinned_role_len = meta["role1.json"]["length"].as_u64().unwrap();
    let pinned_role_sha = meta["role1.json"]["hashes"]["sha256"].as_str().unwrap().to_owned();
    let pinned_targets_len = meta["targets.json"]["length"].as_u64().unwrap();

    let role_orig = std::fs::read(&role_path).unwrap();
    let targets_orig = std::fs::read(&targets_path).unwrap();
    assert_eq!(role_orig.len() as u64, pinned_role_len);
    assert_eq!(sha256_hex(&role_orig), pinned_role_sha);
    assert_eq!(targets_orig.len() as u64, pinned_targets_len);

    // ---- control -------------------------------------------------------------------------
    let repo = load(&root_path, &metadata_dir, &targets_dir).await.unwrap();
    println!(
        "CONTROL load() with pristine files -> OK (delegated role1 present = {})",
        repo.delegated_role("role1").is_some()
    );

    // ---- suspect 1: delegated role file bloated to ~2 MiB -----------------------------------
    let bloated_role = bloat(&role_orig, 2 * 1024 * 1024);
    std::fs::write(&role_path, &bloated_role).unwrap();
    println!(
        "served {role_file}: {} bytes, sha256 {}…  (snapshot pins length {} sha256 {}…)",
        bloated_role.len(),
        &sha256_hex(&bloated_role)[..16],
        pinned_role_len,
        &pinned_role_sha[..16]
    );
    let res = load(&root_path, &metadata_dir, &targets_dir).await;
    match &res {
        Ok(r) => println!(
            "SUSPECT load() with {}x oversized delegated role file -> OK (accepted!), role1 version {}",
            bloated_role.len() as u64 / pinned_role_len,
            r.delegated_role("role1").unwrap().targets.as_ref().unwrap().signed.version
        ),
        Err(e) => println!("SUSPECT load() with oversized delegated role file -> ERROR: {e}"),
    }
    assert!(res.is_ok(), "REFUTED: oversized delegated role file was refused");

    // ---- suspect 2: delegated role file SHORTER but with a different digest ------------------
    let compact_role = compact(&role_orig);
    std::fs::write(&role_path, &compact_role).unwrap();
    println!(
        "served {role_file}: {} bytes, sha256 {}…  (snapshot pins length {} sha256 {}…)",
        compact_role.len(),
        &sha256_hex(&compact_role)[..16],
        pinned_role_len,
        &pinned_role_sha[..16]
    );
    let res = load(&root_path, &metadata_dir, &targets_dir).await;
    match &res {
        Ok(_) => println!("SUSPECT load() with digest-mismatching (compact) delegated role file -> OK (accepted!)"),
        Err(e) => println!("SUSPECT load() with digest-mismatching delegated role file -> ERROR: {e}"),
    }
    assert!(res.is_ok(), "REFUTED: digest-mismatching delegated role file was refused");

    // restore
    std::fs::write(&role_path, &role_orig).unwrap();
    load(&root_path, &metadata_dir, &targets_dir).await.unwrap();

    // ---- comparison: same manipulation on the top-level targets.json ---------------------------
    let bloated_targets = bloat(&targets_orig, 2 * 1024 * 1024);
    std::fs::write(&targets_path, &bloated_targets).unwrap();
    println!(
        "served {targets_file}: {} bytes (snapshot pins length {})",
        bloated_targets.len(),
        pinned_targets_len
    );
    let res = load(&root_path, &metadata_dir, &targets_dir).await;
    match &res {
        Ok(_) => println!("COMPARE load() with oversized top-level targets.json -> OK (unexpected)"),
        Err(e) => println!("COMPARE load() with oversized top-level targets.json -> ERROR: {e}"),
    }
    assert!(res.is_err());

    let compact_targets = compact(&targets_orig);
    std::fs::write(&targets_path, &compact_targets).unwrap();
    println!(
        "served {targets_file}: {} bytes (snapshot pins length {})",
        compact_targets.len(),
        pinned_targets_len
    );
    let res = load(&root_path, &metadata_dir, &targets_dir).await;
    match &res {
        Ok(_) => println!("COMPARE load() with digest-mismatching (compact) top-level targets.json -> OK (unexpected)"),
        Err(e) => println!("COMPARE load() with digest-mismatching (compact) top-level targets.json -> ERROR: {e}"),
    }
    assert!(res.is_err());

    // ---- upper bound: max_targets_size does apply to the delegated file ----------------------
    std::fs::write(&targets_path, &targets_orig).unwrap();
    let huge_role = bloat(&role_orig, 11 * 1024 * 1024);
    std::fs::write(&role_path, &huge_role).unwrap();
    let res = load(&root_path, &metadata_dir, &targets_dir).await;
    match &res {
        Ok(_) => println!("BOUND load() with 11 MiB delegated role file -> OK"),
        Err(e) => println!("BOUND load() with 11 MiB delegated role file -> ERROR: {e}"),
    }
    assert!(res.is_err());
}

#[tokio::test]
async fn repro_b_consistent_snapshot() {
    run(true).await;
}

#[tokio::test]
async fn repro_b_non_consistent_snapshot() {
    run(false).await;
}
