// Throw-away reproduction: does `Repository::save_target` report the failure of the LAST write(2)?
//
// Run with: cargo test --offline -p tough --test zz_repro_save_target_write_error -- --nocapture
//
// Linux only (uses setrlimit(2) / signal(2) through the C library that std already links).

#![cfg(target_os = "linux")]

mod test_utils;

use aws_lc_rs::digest::{digest, SHA256};
use chrono::Utc;
use std::num::NonZeroU64;
use std::path::{Path, PathBuf};
use tempfile::TempDir;
use test_utils::{days, dir_url, test_data};
use tough::editor::signed::PathExists;
use tough::editor::RepositoryEditor;
use tough::key_source::{KeySource, LocalKeySource};
use tough::{Prefix, Repository, RepositoryLoader, TargetName};

// ---------------------------------------------------------------------------------------------
// Fault injection: make file writes fail in this process.

#[repr(C)]
struct RLimit {
    cur: u64,
    max: u64,
}

const RLIMIT_FSIZE: i32 = 1;
const SIGXFSZ: i32 = 25;
const SIG_IGN: usize = 1;

extern "C" {
    fn getrlimit(resource: i32, rlim: *mut RLimit) -> i32;
    fn setrlimit(resource: i32, rlim: *const RLimit) -> i32;
    fn signal(signum: i32, handler: usize) -> usize;
}

/// While this guard is alive no regular file in this process can grow beyond `limit` bytes; the
/// offending write(2) fails with EFBIG. Dropping the guard restores the previous soft limit.
struct DiskFull {
    saved: RLimit,
}

impl DiskFull {
    fn new(limit: u64) -> Self {
        let mut saved = RLimit { cur: 0, max: 0 };
        unsafe {
            signal(SIGXFSZ, SIG_IGN);
            assert_eq!(getrlimit(RLIMIT_FSIZE, &mut saved), 0);
            let lowered = RLimit {
                cur: limit,
                max: saved.max,
            };
            assert_eq!(setrlimit(RLIMIT_FSIZE, &lowered), 0);
        }
        DiskFull { saved }
    }
}

impl Drop for DiskFull {
    fn drop(&mut self) {
        unsafe {
            assert_eq!(setrlimit(RLIMIT_FSIZE, &self.saved), 0);
        }
    }
}

// ---------------------------------------------------------------------------------------------

const TARGET_NAME: &str = "payload.bin";

fn root_path() -> PathBuf {
    test_data().join("simple-rsa").join("root.json")
}

fn payload() -> Vec<u8> {
    // 400 bytes: far below the transport's chunk size, so the stream yields a single chunk.
    (0..400u32).map(|i| b'a' + (i % 26) as u8).collect()
}

/// Builds a signed repository (metadata + targets dirs) with a single target.
async fn build_repo(base: &Path) -> (PathBuf, PathBuf) {
    let src = base.join("src");
    let metadata = base.join("metadata");
    let targets = base.join("targets");
    std::fs::create_dir_all(&src).unwrap();
    std::fs::write(src.join(TARGET_NAME), payload()).unwrap();

    let one = NonZeroU64::new(1).unwrap();
    let expires = Utc::now().checked_add_signed(days(30)).unwrap();
    let keys: &[Box<dyn KeySource>] = &[Box::new(LocalKeySource {
        path: test_data().join("snakeoil.pem"),
    })];
    let mut editor = RepositoryEditor::new(root_path()).await.unwrap();
    editor
        .targets_expires(expires)
        .unwrap()
        .targets_version(one)
        .unwrap()
        .snapshot_expires(expires)
        .snapshot_version(one)
        .timestamp_expires(expires)
        .timestamp_version(one)
        .add_target_paths(vec![src.join(TARGET_NAME)])
        .await
        .unwrap();
    let signed = editor.sign(keys).await.unwrap();
    signed.write(&metadata).await.unwrap();
    signed
        .copy_targets(&src, &targets, PathExists::Fail)
        .await
        .unwrap();
    (metadata, targets)
}

async fn load(metadata: &Path, targets: &Path) -> Repository {
    RepositoryLoader::new(
        &tokio::fs::read(root_path()).await.unwrap(),
        dir_url(metadata),
        dir_url(targets),
    )
    .load()
    .await
    .unwrap()
}

struct Outcome {
    ok: bool,
    exists: bool,
    len: u64,
    sha_matches: bool,
}

fn inspect(
    label: &str,
    result: &Result<(), tough::error::Error>,
    dest: &Path,
    signed_len: u64,
    signed_sha256: &[u8],
) -> Outcome {
    println!("[{label}] save_target returned: {result:?}");
    let exists = dest.exists();
    println!("[{label}] destination {} exists: {exists}", dest.display());
    let (len, sha_matches) = if exists {
        let data = std::fs::read(dest).unwrap();
        let sha = digest(&SHA256, &data);
        (data.len() as u64, sha.as_ref() == signed_sha256)
    } else {
        (0, false)
    };
    println!("[{label}] destination length: {len}  (signed length: {signed_len})");
    println!("[{label}] destination sha256 matches signed sha256: {sha_matches}");
    // Any leftover temp files?
    if let Some(dir) = dest.parent() {
        let listing: Vec<String> = std::fs::read_dir(dir)
            .unwrap()
            .map(|e| {
                let e = e.unwrap();
                format!(
                    "{} ({} bytes)",
                    e.file_name().to_string_lossy(),
                    e.metadata().unwrap().len()
                )
            })
            .collect();
        println!("[{label}] outdir listing: {listing:?}");
    }
    Outcome {
        ok: result.is_ok(),
        exists,
        len,
        sha_matches,
    }
}

#[tokio::test]
async fn save_target_reports_failure_of_final_write() {
    let base = TempDir::new().unwrap();
    let (metadata, targets) = build_repo(base.path()).await;
    let repo = load(&metadata, &targets).await;

    let name = TargetName::new(TARGET_NAME).unwrap();
    let target = repo.targets().signed.targets.get(&name).unwrap().clone();
    let signed_len = target.length;
    let signed_sha256: Vec<u8> = target.hashes.sha256.clone().into_vec();
    println!(
        "signed target: name={TARGET_NAME} length={signed_len} sha256={}",
        hex::encode(&signed_sha256)
    );
    assert_eq!(signed_len, payload().len() as u64);

    // Control: no limit, normal success, full file.
    let out_control = base.path().join("out-control");
    std::fs::create_dir_all(&out_control).unwrap();
    let r = repo.save_target(&name, &out_control, Prefix::None).await;
    let control = inspect(
        "control",
        &r,
        &out_control.join(TARGET_NAME),
        signed_len,
        &signed_sha256,
    );
    assert!(control.ok && control.exists && control.len == signed_len && control.sha_matches);

    // Fault: no file may grow beyond 48 bytes during this ONE save_target call.
    let out_fault = base.path().join("out-fault");
    std::fs::create_dir_all(&out_fault).unwrap();
    let r = {
        let _full = DiskFull::new(48);
        repo.save_target(&name, &out_fault, Prefix::None).await
    };
    let fault = inspect(
        "fault",
        &r,
        &out_fault.join(TARGET_NAME),
        signed_len,
        &signed_sha256,
    );

    // Sanity: the limit has been restored (we can write a big file again).
    std::fs::write(base.path().join("sanity"), vec![0u8; 4096]).unwrap();

    // The suspicion: Ok(()) although the file on disk is not the signed content.
    assert!(fault.ok, "suspicion refuted: save_target reported the error");
    assert!(
        fault.exists,
        "suspicion refuted: nothing was renamed into place"
    );
    assert!(
        fault.len < signed_len && !fault.sha_matches,
        "suspicion refuted: destination holds the full signed content"
    );
    println!(
        "SUSPICION CONFIRMED: save_target returned Ok(()) but left a {}-byte file where {} signed bytes were expected",
        fault.len, signed_len
    );
}
