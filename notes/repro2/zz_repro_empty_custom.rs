// Throw-away reproduction: does a correctly signed targets.json whose target entry carries
// `"custom": {}` fail signature verification?
//
// Run with: cargo test --offline -p tough --test zz_repro_empty_custom -- --nocapture

mod test_utils;

use aws_lc_rs::rand::SystemRandom;
use olpc_cjson::CanonicalFormatter;
use serde::Serialize;
use serde_json::{json, Value};
use test_utils::test_data;
use tough::schema::{Root, Signed, Targets};
use tough::sign::{parse_keypair, Sign};

const KEYID: &str = "8ec3a843a0f9328c863cac4046ab1cacbbc67888476ac7acf73d9bcd9a223ada";

fn canonical(value: &Value) -> Vec<u8> {
    let mut data = Vec::new();
    let mut ser = serde_json::Serializer::with_formatter(&mut data, CanonicalFormatter::new());
    value.serialize(&mut ser).unwrap();
    data
}

/// Signs exactly the canonical JSON of `signed` with snakeoil.pem and assembles the envelope by
/// hand; tough's `Targets` struct is not involved in producing the document.
async fn sign_by_hand(signed: Value) -> String {
    let pem = std::fs::read(test_data().join("snakeoil.pem")).unwrap();
    let key = parse_keypair(&pem).unwrap();
    let bytes = canonical(&signed);
    println!("  canonical signed bytes: {}", String::from_utf8_lossy(&bytes));
    let sig = key.sign(&bytes, &SystemRandom::new()).await.unwrap();
    let doc = json!({
        "signed": signed,
        "signatures": [ { "keyid": KEYID, "sig": hex::encode(sig) } ],
    });
    serde_json::to_string_pretty(&doc).unwrap()
}

fn signed_object(with_empty_custom: bool) -> Value {
    let mut target = json!({
        "length": 31,
        "hashes": {
            "sha256": "65b8c67f51c993d898250f40aa57a317d854900b3a04895464313e48785440da"
        }
    });
    if with_empty_custom {
        target
            .as_object_mut()
            .unwrap()
            .insert("custom".to_owned(), json!({}));
    }
    json!({
        "_type": "targets",
        "spec_version": "1.0.0",
        "version": 1,
        "expires": "2999-01-01T00:00:00Z",
        "targets": { "file1.txt": target }
    })
}

async fn check(label: &str, with_empty_custom: bool, root: &Signed<Root>) -> Result<(), String> {
    println!("[{label}]");
    let doc = sign_by_hand(signed_object(with_empty_custom)).await;
    let targets: Signed<Targets> = serde_json::from_str(&doc).expect("document must parse");

    // What tough re-serialises for verification.
    let mut reser = Vec::new();
    let mut ser = serde_json::Serializer::with_formatter(&mut reser, CanonicalFormatter::new());
    targets.signed.serialize(&mut ser).unwrap();
    println!(
        "  tough's re-serialised bytes: {}",
        String::from_utf8_lossy(&reser)
    );

    let result = root.signed.verify_role(&targets);
    match &result {
        Ok(()) => println!("  verify_role: Ok(())"),
        Err(e) => println!("  verify_role: Err({e})"),
    }
    result.map_err(|e| e.to_string())
}

#[tokio::test]
async fn empty_custom_member_breaks_verification() {
    let root: Signed<Root> = serde_json::from_slice(
        &std::fs::read(test_data().join("simple-rsa").join("root.json")).unwrap(),
    )
    .unwrap();
    // Sanity: the keyid we use is the one root lists for the targets role.
    let role_keys = &root.signed.roles[&tough::schema::RoleType::Targets];
    assert_eq!(role_keys.keyids.len(), 1);
    assert_eq!(hex::encode(role_keys.keyids[0].as_ref()), KEYID);
    root.signed.verify_role(&root).unwrap();

    let control = check("control: no custom member", false, &root).await;
    let variant = check("variant: \"custom\": {}", true, &root).await;

    assert!(
        control.is_ok(),
        "control must verify, otherwise the hand-signing is wrong: {:?}",
        control
    );
    let err = variant.expect_err("suspicion refuted: the \"custom\": {} document verified");
    assert!(
        err.to_lowercase().contains("signature threshold"),
        "unexpected error kind: {}",
        err
    );
    println!("SUSPICION CONFIRMED: control verifies; `\"custom\": {{}}` variant fails with: {err}");
}
