// scratch reproductions (not part of /verif checks)
mod test_utils;
use aws_lc_rs::rand::SystemRandom;
use chrono::Utc;
use std::collections::HashMap;
use std::num::NonZeroU64;
use std::path::PathBuf;
use tempfile::TempDir;
use test_utils::{days, dir_url, test_data};
use tough::editor::RepositoryEditor;
use tough::key_source::{KeySource, LocalKeySource};
use tough::schema::decoded::{Decoded, Hex};
use tough::schema::{
    DelegatedRole, Delegations, Hashes, PathPattern, PathSet, Role, Signature, Signed, Target,
    Targets,
};
use tough::{RepositoryLoader, TargetName};

fn root_path() -> PathBuf { test_data().join("simple-rsa").join("root.json") }
fn key_path() -> PathBuf { test_data().join("snakeoil.pem") }
fn k1() -> PathBuf { test_data().join("targetskey") }
fn k2() -> PathBuf { test_data().join("targetskey-1") }
fn nz(n: u64) -> NonZeroU64 { NonZeroU64::new(n).unwrap() }

#[tokio::test]
async fn d1_duplicate_signature_delegated_role() {
    let a = LocalKeySource { path: k1() }.as_sign().await.unwrap();
    let b = LocalKeySource { path: k2() }.as_sign().await.unwrap();
    let (ka, kb) = (a.tuf_key(), b.tuf_key());
    let (ida, idb) = (ka.key_id().unwrap(), kb.key_id().unwrap());
    let targets = Targets::new("1.0.0".into(), nz(1), Utc::now() + days(1));
    let data = targets.canonical_form().unwrap();
    let sig: Decoded<Hex> = a.sign(&data, &SystemRandom::new()).await.unwrap().into();
    let signed = Signed {
        signed: targets,
        signatures: vec![
            Signature { keyid: ida.clone(), sig: sig.clone() },
            Signature { keyid: ida.clone(), sig },
        ],
    };
    let mut keys = HashMap::new();
    keys.insert(ida.clone(), ka);
    keys.insert(idb.clone(), kb);
    let d = Delegations {
        keys,
        roles: vec![DelegatedRole {
            name: "r".into(),
            keyids: vec![ida, idb],
            threshold: nz(2),
            paths: PathSet::Paths(vec![]),
            terminating: false,
            targets: None,
        }],
    };
    let r = d.verify_role(&signed, "r");
    println!("D1 verify_role with [sigA,sigA], threshold 2 => {:?}", r.is_ok());
    assert!(r.is_err(), "D1: one key signing twice met threshold 2");
}

async fn editor_with_versions() -> RepositoryEditor {
    let mut editor = RepositoryEditor::new(root_path()).await.unwrap();
    editor
        .targets_expires(Utc::now() + days(13)).unwrap()
        .targets_version(nz(1)).unwrap()
        .snapshot_expires(Utc::now() + days(21))
        .snapshot_version(nz(1))
        .timestamp_expires(Utc::now() + days(3))
        .timestamp_version(nz(1));
    editor
}

fn fake_target(i: u64) -> Target {
    Target {
        length: i,
        hashes: Hashes { sha256: vec![i as u8; 32].into(), _extra: HashMap::new() },
        custom: HashMap::new(),
        _extra: HashMap::new(),
    }
}

#[tokio::test]
async fn d2_delegated_role_larger_than_targets_json() {
    let root_keys: &[Box<dyn KeySource>] = &[Box::new(LocalKeySource { path: key_path() })];
    let role_keys: &[Box<dyn KeySource>] = &[Box::new(LocalKeySource { path: k1() })];
    let mut editor = editor_with_versions().await;
    editor
        .delegate_role("A", role_keys, PathSet::Paths(vec![PathPattern::new("*").unwrap()]),
            nz(1), Utc::now() + days(10), nz(1))
        .await.unwrap();
    editor.sign_targets_editor(root_keys).await.unwrap();
    editor.change_delegated_targets("A").unwrap();
    for i in 0..200u64 {
        editor.add_target(format!("file-with-a-long-name-{i}.txt").as_str(), fake_target(i)).unwrap();
    }
    editor.targets_version(nz(2)).unwrap().targets_expires(Utc::now() + days(10)).unwrap();
    editor.sign_targets_editor(role_keys).await.unwrap();
    let signed = editor.sign(root_keys).await.unwrap();
    let dir = TempDir::new().unwrap();
    let md = dir.path().join("metadata");
    signed.write(&md).await.unwrap();
    for f in std::fs::read_dir(&md).unwrap() {
        let f = f.unwrap();
        println!("D2 file {:?} {} bytes", f.file_name(), f.metadata().unwrap().len());
    }
    let r = RepositoryLoader::new(&tokio::fs::read(root_path()).await.unwrap(), dir_url(&md), dir_url(dir.path().join("targets")))
        .load().await;
    println!("D2 load => {:?}", r.as_ref().map(|_| ()).map_err(|e| e.to_string()));
    assert!(r.is_ok(), "D2: legit repo with big delegated role refused");
}

#[tokio::test]
async fn d5_snapshot_extra_dropped() {
    let root_keys: &[Box<dyn KeySource>] = &[Box::new(LocalKeySource { path: key_path() })];
    let mut editor = editor_with_versions().await;
    let mut snap = tough::schema::Snapshot::new("1.0.0".into(), nz(1), Utc::now() + days(1));
    snap._extra.insert("x-unknown".into(), serde_json::json!("keep me"));
    let mut ts = tough::schema::Timestamp::new("1.0.0".into(), nz(1), Utc::now() + days(1));
    ts._extra.insert("x-unknown".into(), serde_json::json!("keep me"));
    editor.snapshot(snap).unwrap();
    editor.timestamp(ts).unwrap();
    let signed = editor.sign(root_keys).await.unwrap();
    let dir = TempDir::new().unwrap();
    signed.write(dir.path()).await.unwrap();
    let snap_txt = std::fs::read_to_string(dir.path().join("1.snapshot.json")).unwrap();
    let ts_txt = std::fs::read_to_string(dir.path().join("timestamp.json")).unwrap();
    println!("D5 timestamp keeps extra: {}  snapshot keeps extra: {}", ts_txt.contains("x-unknown"), snap_txt.contains("x-unknown"));
    assert!(ts_txt.contains("x-unknown"));
    assert!(snap_txt.contains("x-unknown"), "D5: snapshot _extra dropped");
}

use tough::editor::signed::SignedRole;
use tough::schema::{KeyHolder, Root, RoleType};

/// Build a repository whose root v2 rotates the timestamp key; publish state `ver`.
async fn publish(dir: &std::path::Path, ver: u64) {
    let k1: Box<dyn KeySource> = Box::new(LocalKeySource { path: key_path() });
    let k2: Box<dyn KeySource> = Box::new(LocalKeySource { path: test_data().join("snakeoil_2.pem") });
    let md = dir.join("metadata");
    std::fs::create_dir_all(&md).unwrap();
    // root v1 = fixture
    let r1: Signed<Root> = serde_json::from_slice(&std::fs::read(root_path()).unwrap()).unwrap();
    std::fs::copy(root_path(), md.join("1.root.json")).unwrap();
    // root v2: timestamp key replaced by k2
    let key2 = k2.as_sign().await.unwrap().tuf_key();
    let id2 = key2.key_id().unwrap();
    let mut r2 = r1.signed.clone();
    r2.version = nz(2);
    r2.keys.insert(id2.clone(), key2);
    r2.roles.get_mut(&RoleType::Timestamp).unwrap().keyids = vec![id2];
    let keys = [k1, k2];
    let sr2 = SignedRole::new(r2.clone(), &KeyHolder::Root(r2.clone()), &keys, &SystemRandom::new()).await.unwrap();
    sr2.write(&md, true).await.unwrap();
    let mut editor = RepositoryEditor::new(md.join("2.root.json")).await.unwrap();
    editor
        .targets_expires(Utc::now() + days(13)).unwrap()
        .targets_version(nz(1)).unwrap()
        .snapshot_expires(Utc::now() + days(21))
        .snapshot_version(nz(ver))
        .timestamp_expires(Utc::now() + days(3))
        .timestamp_version(nz(ver));
    let signed = editor.sign(&keys).await.unwrap();
    signed.write(&md).await.unwrap();
}

async fn cycle(shipped_root: &std::path::Path, repo: &std::path::Path, ds: &std::path::Path) -> Result<u64, String> {
    RepositoryLoader::new(&tokio::fs::read(shipped_root).await.unwrap(), dir_url(repo.join("metadata")), dir_url(repo.join("targets")))
        .datastore(ds)
        .load()
        .await
        .map(|r| r.timestamp().signed.version.get())
        .map_err(|e| e.to_string())
}

#[tokio::test]
async fn d7_rollback_with_older_shipped_root() {
    let new = TempDir::new().unwrap();
    let old = TempDir::new().unwrap();
    publish(new.path(), 5).await;
    publish(old.path(), 3).await;
    // control: shipped root == newest root (v2)
    let ds = TempDir::new().unwrap();
    let shipped2 = new.path().join("metadata").join("2.root.json");
    println!("D7 control cycle1 (v5) => {:?}", cycle(&shipped2, new.path(), ds.path()).await);
    let c = cycle(&shipped2, old.path(), ds.path()).await;
    println!("D7 control cycle2 (replay v3) => {:?}", c);
    assert!(c.is_err(), "control: rollback must be refused");
    // finding: shipped root v1 (older), same repositories
    let ds = TempDir::new().unwrap();
    let shipped1 = root_path();
    println!("D7 cycle1 (v5) => {:?}", cycle(&shipped1, new.path(), ds.path()).await);
    let r = cycle(&shipped1, old.path(), ds.path()).await;
    println!("D7 cycle2 (replay v3) => {:?}", r);
    assert!(r.is_err(), "D7: replayed older timestamp accepted after successful cycle with v5");
}


#[tokio::test]
async fn d4_truncated_datastore_file_is_ignored() {
    let new = TempDir::new().unwrap();
    let old = TempDir::new().unwrap();
    publish(new.path(), 5).await;
    publish(old.path(), 3).await;
    let ds = TempDir::new().unwrap();
    let shipped2 = new.path().join("metadata").join("2.root.json");
    println!("D4 cycle1 (v5) => {:?}", cycle(&shipped2, new.path(), ds.path()).await);
    // what a kill in the middle of tokio::fs::write leaves behind: a prefix of the new content
    for f in ["timestamp.json", "snapshot.json"] {
        let p = ds.path().join(f);
        let b = std::fs::read(&p).unwrap();
        std::fs::write(&p, &b[..b.len() / 2]).unwrap();
    }
    let r = cycle(&shipped2, old.path(), ds.path()).await;
    println!("D4 cycle2 (replay v3 after torn write) => {:?}", r);
    assert!(r.is_err(), "D4: torn datastore write erased rollback protection");
}

#[tokio::test]
async fn d8_http_tries() {
    use httptest::{matchers::*, responders::*, Expectation, Server};
    use tough::{HttpTransportBuilder, Transport, IntoVec};
    for tries in [1u32, 2, 4] {
        let server = Server::run();
        let n = std::sync::Arc::new(std::sync::atomic::AtomicUsize::new(0));
        let n2 = n.clone();
        server.expect(
            Expectation::matching(any()).times(..).respond_with(move || {
                n2.fetch_add(1, std::sync::atomic::Ordering::SeqCst);
                status_code(500)
            }),
        );
        let t = HttpTransportBuilder::new()
            .tries(tries)
            .initial_backoff(std::time::Duration::from_millis(1))
            .max_backoff(std::time::Duration::from_millis(2))
            .build();
        let url = url::Url::parse(&server.url_str("/x")).unwrap();
        let r = t.fetch(url).await.unwrap().into_vec().await;
        println!("D8 tries={tries} requests={} err={}", n.load(std::sync::atomic::Ordering::SeqCst), r.is_err());
        assert!(n.load(std::sync::atomic::Ordering::SeqCst) as u32 <= tries, "D8: more requests than tries");
    }
}

#[tokio::test]
async fn d11_extra_member_in_delegated_role_entry() {
    // a targets document as another implementation might sign it: unknown member inside a delegation entry
    let a = LocalKeySource { path: k1() }.as_sign().await.unwrap();
    let ka = a.tuf_key();
    let ida = ka.key_id().unwrap();
    let root_signer = LocalKeySource { path: key_path() }.as_sign().await.unwrap();
    let doc = serde_json::json!({
        "_type": "targets", "spec_version": "1.0.0", "version": 1, "expires": "2999-01-01T00:00:00Z",
        "targets": {},
        "delegations": { "keys": { hex::encode(&ida): serde_json::to_value(&ka).unwrap() },
            "roles": [ { "name": "r", "keyids": [hex::encode(&ida)], "threshold": 1, "paths": ["*"], "terminating": false, "x-unknown": "y" } ] }
    });
    let mut doc = doc;
    if std::env::var("D11_CONTROL").is_ok() { doc["delegations"]["roles"][0].as_object_mut().unwrap().remove("x-unknown"); }
    let doc = serde_json::json!({ "_": 0 }).as_object().map(|_| doc).unwrap(); let _unused = serde_json::json!({
    });
    // canonical form of the document as signed by the other party
    let mut data = Vec::new();
    let mut ser = serde_json::Serializer::with_formatter(&mut data, olpc_cjson::CanonicalFormatter::new());
    serde::Serialize::serialize(&doc, &mut ser).unwrap();
    let sig = root_signer.sign(&data, &SystemRandom::new()).await.unwrap();
    let root: Signed<Root> = serde_json::from_slice(&std::fs::read(root_path()).unwrap()).unwrap();
    let rid = root.signed.keys.keys().next().unwrap().clone();
    let full = serde_json::json!({"signed": doc, "signatures": [ {"keyid": hex::encode(&rid), "sig": hex::encode(&sig)} ]});
    let parsed: Signed<Targets> = serde_json::from_value(full).unwrap();
    let r = root.signed.verify_role(&parsed);
    println!("D11 verify foreign targets with extra member in delegation entry => {:?}", r.as_ref().map_err(|e| e.to_string()));
    assert!(r.is_ok(), "D11: conforming foreign document with extra member does not verify");
}


#[derive(Debug, Clone)]
struct CountingFs(std::sync::Arc<std::sync::atomic::AtomicUsize>, usize);
#[tough::async_trait]
impl tough::Transport for CountingFs {
    async fn fetch(&self, url: url::Url) -> Result<std::pin::Pin<Box<dyn futures_core::Stream<Item = Result<tough::Bytes, tough::TransportError>> + Send>>, tough::TransportError> {
        let n = self.0.fetch_add(1, std::sync::atomic::Ordering::SeqCst);
        if n >= self.1 {
            return Err(tough::TransportError::new(tough::TransportErrorKind::Other, url));
        }
        tough::FilesystemTransport.fetch(url).await
    }
}

async fn sign_doc<T: Role + serde::Serialize>(t: T) -> Vec<u8> {
    let k = LocalKeySource { path: key_path() }.as_sign().await.unwrap();
    let root: Signed<Root> = serde_json::from_slice(&std::fs::read(root_path()).unwrap()).unwrap();
    let id = root.signed.key_id(k.as_ref()).unwrap();
    let sig = k.sign(&t.canonical_form().unwrap(), &SystemRandom::new()).await.unwrap();
    serde_json::to_vec(&Signed { signed: t, signatures: vec![Signature { keyid: id, sig: sig.into() }] }).unwrap()
}

#[test]
fn d3_delegation_cycle() {
    std::thread::Builder::new().stack_size(256 << 20).spawn(|| {
        tokio::runtime::Builder::new_current_thread().enable_all().build().unwrap().block_on(async {
            let root: Signed<Root> = serde_json::from_slice(&std::fs::read(root_path()).unwrap()).unwrap();
            let (id, k) = root.signed.keys.iter().next().map(|(a, b)| (a.clone(), b.clone())).unwrap();
            let deleg = |to: &str| Delegations {
                keys: vec![(id.clone(), k.clone())].into_iter().collect(),
                roles: vec![DelegatedRole { name: to.into(), keyids: vec![id.clone()], threshold: nz(1),
                    paths: PathSet::Paths(vec![PathPattern::new("*").unwrap()]), terminating: false, targets: None }],
            };
            let exp = Utc::now() + days(5);
            let mut top = Targets::new("1.0.0".into(), nz(1), exp); top.delegations = Some(deleg("A"));
            let mut a = Targets::new("1.0.0".into(), nz(1), exp); a.delegations = Some(deleg("B"));
            let mut b = Targets::new("1.0.0".into(), nz(1), exp); b.delegations = Some(deleg("A"));
            let mut snap = tough::schema::Snapshot::new("1.0.0".into(), nz(1), exp);
            for f in ["targets.json", "A.json", "B.json"] {
                snap.meta.insert(f.into(), tough::schema::Metafile { length: None, hashes: None, version: nz(1), _extra: HashMap::new() });
            }
            let mut ts = tough::schema::Timestamp::new("1.0.0".into(), nz(1), exp);
            ts.meta.insert("snapshot.json".into(), tough::schema::Metafile { length: None, hashes: None, version: nz(1), _extra: HashMap::new() });
            let dir = TempDir::new().unwrap();
            let md = dir.path().join("metadata"); std::fs::create_dir_all(&md).unwrap();
            std::fs::write(md.join("1.targets.json"), sign_doc(top).await).unwrap();
            std::fs::write(md.join("1.A.json"), sign_doc(a).await).unwrap();
            std::fs::write(md.join("1.B.json"), sign_doc(b).await).unwrap();
            std::fs::write(md.join("1.snapshot.json"), sign_doc(snap).await).unwrap();
            std::fs::write(md.join("timestamp.json"), sign_doc(ts).await).unwrap();
            let n = std::sync::Arc::new(std::sync::atomic::AtomicUsize::new(0));
            let r = RepositoryLoader::new(&std::fs::read(root_path()).unwrap(), dir_url(&md), dir_url(dir.path().join("targets")))
                .transport(CountingFs(n.clone(), 500)).load().await;
            println!("D3 mutual delegation A<->B: fetches before the test transport cut it off = {} ; result = {:?}",
                n.load(std::sync::atomic::Ordering::SeqCst), r.map(|_| ()).map_err(|e| e.to_string().chars().take(80).collect::<String>()));
        });
    }).unwrap().join().unwrap();
}

#[tokio::test]
async fn d10_add_role_accepts_undersigned() {
    let root_keys: &[Box<dyn KeySource>] = &[Box::new(LocalKeySource { path: key_path() })];
    let k2only: &[Box<dyn KeySource>] = &[Box::new(LocalKeySource { path: k2() })];
    // role holder creates role "B" signed with ONE key
    let new_role = tough::editor::targets::TargetsEditor::new("B")
        .version(nz(1)).expires(Utc::now() + days(21)).sign(k2only).await.unwrap();
    let out = TempDir::new().unwrap();
    new_role.write(out.path().join("metadata"), false).await.unwrap();
    // owner publishes a repo, then adds B with threshold 2 over {k1,k2}
    let editor = editor_with_versions().await;
    let dir = TempDir::new().unwrap();
    let md = dir.path().join("metadata");
    editor.sign(root_keys).await.unwrap().write(&md).await.unwrap();
    let repo = RepositoryLoader::new(&std::fs::read(root_path()).unwrap(), dir_url(&md), dir_url(dir.path().join("targets"))).load().await.unwrap();
    let mut editor = RepositoryEditor::from_repo(root_path(), repo).await.unwrap();
    let mut keys = HashMap::new();
    for p in [k1(), k2()] { let k = LocalKeySource { path: p }.as_sign().await.unwrap().tuf_key(); keys.insert(k.key_id().unwrap(), k); }
    let accepted = editor.add_role("B", dir_url(out.path().join("metadata")).as_str(),
        PathSet::Paths(vec![PathPattern::new("*").unwrap()]), nz(2), Some(keys)).await.is_ok();
    editor.targets_version(nz(2)).unwrap().targets_expires(Utc::now() + days(3)).unwrap()
        .snapshot_version(nz(2)).snapshot_expires(Utc::now() + days(3))
        .timestamp_version(nz(2)).timestamp_expires(Utc::now() + days(3));
    let signed = editor.sign(root_keys).await;
    println!("D10 add_role accepted={accepted} sign ok={}", signed.is_ok());
    let dir2 = TempDir::new().unwrap();
    let md2 = dir2.path().join("metadata");
    signed.unwrap().write(&md2).await.unwrap();
    let r = RepositoryLoader::new(&std::fs::read(root_path()).unwrap(), dir_url(&md2), dir_url(dir2.path().join("targets"))).load().await;
    println!("D10 client load => {:?}", r.as_ref().map(|_| ()).map_err(|e| e.to_string()));
    assert!(r.is_ok(), "D10: editor accepted and wrote a repository the client refuses");
}

#[tokio::test]
async fn dbg_sign_doc() {
    let exp = Utc::now() + days(5);
    let mut ts = tough::schema::Timestamp::new("1.0.0".into(), nz(1), exp);
    ts.meta.insert("snapshot.json".into(), tough::schema::Metafile { length: None, hashes: None, version: nz(1), _extra: HashMap::new() });
    let bytes = sign_doc(ts).await;
    println!("DBG {}", String::from_utf8_lossy(&bytes));
    let parsed: Signed<tough::schema::Timestamp> = serde_json::from_slice(&bytes).unwrap();
    let root: Signed<Root> = serde_json::from_slice(&std::fs::read(root_path()).unwrap()).unwrap();
    println!("DBG root keys {:?}", root.signed.keys.keys().map(hex::encode).collect::<Vec<_>>());
    println!("DBG verify {:?}", root.signed.verify_role(&parsed).map_err(|e| e.to_string()));
}
