use olpc_cjson::CanonicalFormatter;
use serde::Serialize;
fn enc(v: serde_json::Value) -> String {
    let mut buf = Vec::new();
    let mut ser = serde_json::Serializer::with_formatter(&mut buf, CanonicalFormatter::new());
    v.serialize(&mut ser).unwrap();
    String::from_utf8(buf).unwrap()
}
#[test]
fn d6_order() {
    let a = enc(serde_json::json!({"a": 1, "a!": 2}));
    println!("D6 {a}");
    let b = enc(serde_json::json!({"\"": 1, "#": 2}));
    println!("D6 {b}");
    assert_eq!(a, r#"{"a":1,"a!":2}"#);
    assert_eq!(b, r##"{"\"":1,"#":2}"##);
}
