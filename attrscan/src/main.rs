// attrscan — extracts #[derive(..)] / #[serde(..)] attributes of structs, enums, fields and
// variants from the raw sources (serde helper attributes do not survive macro expansion, so the
// rustc driver cannot see them). Output: one JSON document on stdout.
// usage: attrscan <repo root> <file.rs>...
use quote::ToTokens;
use std::fmt::Write as _;

fn q(s: &str) -> String {
    let mut o = String::from("\"");
    for c in s.chars() {
        match c {
            '"' => o.push_str("\\\""),
            '\\' => o.push_str("\\\\"),
            '\n' => o.push_str("\\n"),
            '\t' => o.push_str("\\t"),
            '\r' => o.push_str("\\r"),
            c if (c as u32) < 0x20 => {
                let _ = write!(o, "\\u{:04x}", c as u32);
            }
            c => o.push(c),
        }
    }
    o.push('"');
    o
}

fn attrs_json(attrs: &[syn::Attribute]) -> (Vec<String>, Vec<String>, bool) {
    // (derives, serde items, cfg(test))
    let mut derives = Vec::new();
    let mut serde = Vec::new();
    let mut cfg_test = false;
    for a in attrs {
        let path = a.path().to_token_stream().to_string();
        if path == "derive" {
            if let syn::Meta::List(l) = &a.meta {
                for part in l.tokens.to_string().split(',') {
                    let p = part.trim().replace(' ', "");
                    if !p.is_empty() {
                        derives.push(p);
                    }
                }
            }
        } else if path == "serde" {
            if let syn::Meta::List(l) = &a.meta {
                // split on top-level commas
                let s = l.tokens.to_string();
                let mut depth = 0i32;
                let mut cur = String::new();
                let mut in_str = false;
                let mut prev = ' ';
                for ch in s.chars() {
                    if ch == '"' && prev != '\\' {
                        in_str = !in_str;
                    }
                    if !in_str {
                        if ch == '(' || ch == '[' || ch == '{' {
                            depth += 1;
                        }
                        if ch == ')' || ch == ']' || ch == '}' {
                            depth -= 1;
                        }
                        if ch == ',' && depth == 0 {
                            serde.push(cur.trim().to_string());
                            cur.clear();
                            prev = ch;
                            continue;
                        }
                    }
                    cur.push(ch);
                    prev = ch;
                }
                if !cur.trim().is_empty() {
                    serde.push(cur.trim().to_string());
                }
            }
        } else if path == "cfg" {
            if a.meta.to_token_stream().to_string().replace(' ', "").contains("cfg(test)") {
                cfg_test = true;
            }
        }
    }
    (derives, serde, cfg_test)
}

fn list(v: &[String]) -> String {
    format!("[{}]", v.iter().map(|s| q(s)).collect::<Vec<_>>().join(","))
}

fn fields_json(fields: &syn::Fields) -> String {
    let mut out = Vec::new();
    for (i, f) in fields.iter().enumerate() {
        let name = f.ident.as_ref().map(|i| i.to_string()).unwrap_or_else(|| i.to_string());
        let (_, serde, _) = attrs_json(&f.attrs);
        let ty = f.ty.to_token_stream().to_string().replace(' ', "");
        let vis = f.vis.to_token_stream().to_string();
        out.push(format!(
            "{{\"name\":{},\"ty\":{},\"vis\":{},\"serde\":{}}}",
            q(&name),
            q(&ty),
            q(&vis),
            list(&serde)
        ));
    }
    format!("[{}]", out.join(","))
}

struct Ctx {
    file: String,
    items: Vec<String>,
}

fn visit_items(cx: &mut Ctx, module: &str, items: &[syn::Item], in_test: bool) {
    for it in items {
        match it {
            syn::Item::Struct(s) => {
                let (d, se, t) = attrs_json(&s.attrs);
                let line = s.ident.span().start().line;
                cx.items.push(format!(
                    "{{\"kind\":\"struct\",\"name\":{},\"module\":{},\"file\":{},\"line\":{},\"test\":{},\"derives\":{},\"serde\":{},\"generics\":{},\"fields\":{}}}",
                    q(&s.ident.to_string()), q(module), q(&cx.file), line, in_test || t, list(&d), list(&se),
                    q(&s.generics.to_token_stream().to_string()), fields_json(&s.fields)
                ));
            }
            syn::Item::Enum(e) => {
                let (d, se, t) = attrs_json(&e.attrs);
                let line = e.ident.span().start().line;
                let mut vars = Vec::new();
                for v in &e.variants {
                    let (_, vs, _) = attrs_json(&v.attrs);
                    vars.push(format!(
                        "{{\"name\":{},\"serde\":{},\"fields\":{}}}",
                        q(&v.ident.to_string()),
                        list(&vs),
                        fields_json(&v.fields)
                    ));
                }
                cx.items.push(format!(
                    "{{\"kind\":\"enum\",\"name\":{},\"module\":{},\"file\":{},\"line\":{},\"test\":{},\"derives\":{},\"serde\":{},\"variants\":[{}]}}",
                    q(&e.ident.to_string()), q(module), q(&cx.file), line, in_test || t, list(&d), list(&se), vars.join(",")
                ));
            }
            syn::Item::Impl(im) => {
                if let Some((_, path, _)) = &im.trait_ {
                    let tr = path.to_token_stream().to_string().replace(' ', "");
                    let ty = im.self_ty.to_token_stream().to_string().replace(' ', "");
                    let (_, _, t) = attrs_json(&im.attrs);
                    let line = im.impl_token.span.start().line;
                    cx.items.push(format!(
                        "{{\"kind\":\"impl\",\"trait\":{},\"self\":{},\"module\":{},\"file\":{},\"line\":{},\"test\":{}}}",
                        q(&tr), q(&ty), q(module), q(&cx.file), line, in_test || t
                    ));
                }
            }
            syn::Item::Mod(m) => {
                if let Some((_, inner)) = &m.content {
                    let (_, _, t) = attrs_json(&m.attrs);
                    let sub = format!("{}::{}", module, m.ident);
                    visit_items(cx, &sub, inner, in_test || t);
                }
            }
            _ => {}
        }
    }
}

fn main() {
    let args: Vec<String> = std::env::args().collect();
    let root = &args[1];
    let mut cx = Ctx { file: String::new(), items: Vec::new() };
    let mut errors = Vec::new();
    for f in &args[2..] {
        let src = match std::fs::read_to_string(f) {
            Ok(s) => s,
            Err(e) => {
                errors.push(format!("{}: {}", f, e));
                continue;
            }
        };
        let rel = f.strip_prefix(root).unwrap_or(f).trim_start_matches('/').to_string();
        match syn::parse_file(&src) {
            Ok(file) => {
                cx.file = rel.clone();
                visit_items(&mut cx, "", &file.items, false);
            }
            Err(e) => errors.push(format!("{}: parse error {}", rel, e)),
        }
    }
    if !errors.is_empty() {
        for e in errors {
            eprintln!("{}", e);
        }
        std::process::exit(1);
    }
    println!("{{\"items\":[{}]}}", cx.items.join(",\n"));
}
