#!/bin/sh
# Builds the fact extractor (rustc_private driver, nightly) and the attribute scanner, then
# runs the one-off dependency `cargo +nightly check` of /repo into /verif/.work/target.
set -e
cd "$(dirname "$0")"
export CARGO_NET_OFFLINE=true
python3 -m tl.build setup
